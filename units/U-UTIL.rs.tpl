//@ unit U-UTIL props=C10,C17,C18,C01
// crates/lib/src/utils.rs: retry helper, declared-size check, nibble split.
#![allow(unused_imports, dead_code, unused_variables, unused_mut)]
use vstd::prelude::*;
use std::cmp::Ordering;

verus! {
/*@ item file=crates/lib/src/errors/kind.rs kind=enum name=GDErrorKind
attrs {
#[derive(PartialEq, Eq, Structural)]
}
@*/
use GDErrorKind::*;
/*@ include path=prelude_err.rs @*/

//@ body-begin
/// timeout-class failures (C10): nothing received / could not send
pub open spec fn is_timeout(k: GDErrorKind) -> bool { k == PacketReceive || k == PacketSend }

/*@ fn file=crates/lib/src/utils.rs name=error_by_expected_size props=C17,C01,C03
spec {
    ensures
        r is Ok <==> size == expected,
        size > expected ==> r is Err && r->Err_0.kind == PacketOverflow,
        size < expected ==> r is Err && r->Err_0.kind == PacketUnderflow,
}
@*/

/*@ fn file=crates/lib/src/utils.rs name=u8_lower_upper props=C17,C02
spec {
    ensures r.0 == n % 16, r.1 == n / 16, n == r.1 * 16 + r.0,
}
body_start {
    proof { assert(n & 15 == n % 16 && n >> 4 == n / 16) by (bit_vector); }
}
@*/

// C10 / C18.  `attempts` is ghost state counting calls of `fetch`; the contract is stated for EVERY retry
// count including usize::MAX (no precondition on retry_count), so `retry_count + 1` must not overflow.
/*@ fn file=crates/lib/src/utils.rs name=retry_on_timeout props=C10,C18,C01
fn_attrs {
#[verifier::loop_isolation(false)]
}
spec {
    requires
        forall|u: ()| fetch.requires(u),
    ensures
        // the result is an outcome of one of the attempts ...
        fetch.ensures((), r),
        // (the "never re-attempted after a malformed reply / first valid reply wins / r+1 attempts on
        //  timeouts" clauses are the loop invariant and the assertions at the exits below)
}
body_start {
    let ghost r0: int = retry_count as int;
    let ghost mut attempts: int = 0;
    let ghost mut have_last: bool = false;
    let ghost f0 = fetch;
    // r0 + 1 attempts; for r0 == usize::MAX the count saturates (2^64 attempts are not observable)
    let ghost total: int = if r0 + 1 <= usize::MAX { r0 + 1 } else { usize::MAX as int };
}
loop 1 {
    invariant
        fetch == f0,
        forall|u: ()| fetch.requires(u),
        // exactly one attempt per iteration, at most r0 + 1 in total
        attempts + retry_count == total,
        0 <= attempts <= total, total == if r0 + 1 <= usize::MAX { r0 + 1 } else { usize::MAX as int },
        // every earlier attempt was a timeout-class failure, and last_err is the latest of them
        have_last <==> attempts > 0,
        have_last ==> fetch.ensures((), Err(last_err)) && is_timeout(last_err.kind),
    decreases retry_count,
}
before "retry_count -= 1;" {
    proof { attempts = attempts + 1; have_last = true; }
}
before "Err(last_err)" {
    // all r0 + 1 attempts timed out: the failure returned is the last receive/send-class error
    assert(attempts == total && have_last && is_timeout(last_err.kind));
}
@*/
//@ body-end
} // verus!
fn main() {}
