//@ unit U-MC props=C03
// Minecraft auto-detection: order of the variant queries and "first answer wins" (crates/lib/src/games/minecraft/protocol/mod.rs
// and crates/lib/src/games/minecraft/mod.rs).  The five variant clients are abstract callees here: what a variant query returns
// is an uninterpreted function of the address (the server is deterministic for the property's purposes), so the result of the
// auto-detecting query can be stated as "the first Ok in the documented order".
#![allow(unused_imports, dead_code, unused_variables, unused_mut, unused_parens)]
use vstd::prelude::*;

verus! {
/*@ item file=crates/lib/src/errors/kind.rs kind=enum name=GDErrorKind
attrs {
#[derive(PartialEq, Eq, Structural)]
}
@*/
use GDErrorKind::*;
/*@ include path=prelude_err.rs @*/
/*@ include path=net_model.rs @*/
//@ body-begin

/*@ item file=crates/lib/src/games/minecraft/types.rs kind=enum name=LegacyGroup
attrs {
#[derive(PartialEq, Eq, Structural, Clone, Copy)]
}
@*/
impl Clone for TimeoutSettings { #[verifier::external_body] fn clone(&self) -> (r: Self) ensures r == *self { unimplemented!() } }
impl Copy for TimeoutSettings {}
#[verifier::external_body]
pub struct RequestSettings { _p: core::marker::PhantomData<()> }
#[verifier::external_body]
pub struct JavaResponse { _p: core::marker::PhantomData<()> }
#[verifier::external_body]
pub struct BedrockResponse { _p: core::marker::PhantomData<()> }
pub uninterp spec fn from_bedrock(r: BedrockResponse) -> JavaResponse;
impl JavaResponse {
    // JavaResponse::from_bedrock_response: a pure conversion (its field mapping is C15's business)
    #[verifier::external_body]
    pub fn from_bedrock_response(response: BedrockResponse) -> (r: JavaResponse) ensures r == from_bedrock(response) { unimplemented!() }
}

/// what each variant client answers for a server address (uninterpreted: the property quantifies over it)
pub uninterp spec fn ans_java(a: SocketAddr) -> Result<JavaResponse, GDErrorKind>;
pub uninterp spec fn ans_bedrock(a: SocketAddr) -> Result<BedrockResponse, GDErrorKind>;
pub uninterp spec fn ans_legacy(g: LegacyGroup, a: SocketAddr) -> Result<JavaResponse, GDErrorKind>;
pub open spec fn same<T>(r: GDResult<T>, s: Result<T, GDErrorKind>) -> bool {
    (r is Ok <==> s is Ok) && (r is Ok ==> r->Ok_0 == s->Ok_0) && (r is Err ==> r->Err_0.kind == s->Err_0)
}
pub struct Java;
pub struct Bedrock;
pub struct LegacyV1_6;
pub struct LegacyV1_4;
pub struct LegacyVB1_8;
impl Java {
    #[verifier::external_body]
    pub fn query(address: &SocketAddr, timeout_settings: Option<TimeoutSettings>, request_settings: Option<RequestSettings>) -> (r: GDResult<JavaResponse>)
        ensures same(r, ans_java(*address)) { unimplemented!() }
}
impl Bedrock {
    #[verifier::external_body]
    pub fn query(address: &SocketAddr, timeout_settings: Option<TimeoutSettings>) -> (r: GDResult<BedrockResponse>)
        ensures same(r, ans_bedrock(*address)) { unimplemented!() }
}
impl LegacyV1_6 {
    #[verifier::external_body]
    pub fn query(address: &SocketAddr, timeout_settings: Option<TimeoutSettings>) -> (r: GDResult<JavaResponse>)
        ensures same(r, ans_legacy(LegacyGroup::V1_6, *address)) { unimplemented!() }
}
impl LegacyV1_4 {
    #[verifier::external_body]
    pub fn query(address: &SocketAddr, timeout_settings: Option<TimeoutSettings>) -> (r: GDResult<JavaResponse>)
        ensures same(r, ans_legacy(LegacyGroup::V1_4, *address)) { unimplemented!() }
}
impl LegacyVB1_8 {
    #[verifier::external_body]
    pub fn query(address: &SocketAddr, timeout_settings: Option<TimeoutSettings>) -> (r: GDResult<JavaResponse>)
        ensures same(r, ans_legacy(LegacyGroup::VB1_8, *address)) { unimplemented!() }
}

/// the documented order: legacy 1.6, then 1.4, then beta 1.8; the first that answers wins
pub open spec fn legacy_auto(a: SocketAddr) -> Result<JavaResponse, GDErrorKind> {
    if ans_legacy(LegacyGroup::V1_6, a) is Ok { ans_legacy(LegacyGroup::V1_6, a) }
    else if ans_legacy(LegacyGroup::V1_4, a) is Ok { ans_legacy(LegacyGroup::V1_4, a) }
    else if ans_legacy(LegacyGroup::VB1_8, a) is Ok { ans_legacy(LegacyGroup::VB1_8, a) }
    else { Err(AutoQuery) }
}
/// Java, then Bedrock (converted), then the legacy variants; fails only if none answers
pub open spec fn auto(a: SocketAddr) -> Result<JavaResponse, GDErrorKind> {
    if ans_java(a) is Ok { ans_java(a) }
    else if ans_bedrock(a) is Ok { Ok(from_bedrock(ans_bedrock(a)->Ok_0)) }
    else if legacy_auto(a) is Ok { legacy_auto(a) }
    else { Err(AutoQuery) }
}

pub mod protocol {
use super::*;
/*@ fn file=crates/lib/src/games/minecraft/protocol/mod.rs name=query_java
spec {
    ensures same(r, ans_java(*address)),
}
@*/
/*@ fn file=crates/lib/src/games/minecraft/protocol/mod.rs name=query_bedrock
spec {
    ensures same(r, ans_bedrock(*address)),
}
@*/
/*@ fn file=crates/lib/src/games/minecraft/protocol/mod.rs name=query_legacy_specific
spec {
    ensures same(r, ans_legacy(group, *address)),
}
@*/
/*@ fn file=crates/lib/src/games/minecraft/protocol/mod.rs name=query_legacy
use R2
spec {
    ensures same(r, legacy_auto(*address)),
}
@*/
/*@ fn file=crates/lib/src/games/minecraft/protocol/mod.rs name=query
use R2
spec {
    ensures same(r, auto(*address)),
}
@*/

}

// ---- the dedicated module games::minecraft (crates/lib/src/games/minecraft/mod.rs): same order, default ports 25565 / 19132 ----
pub open spec fn java_addr(ip: IpAddr, port: Option<u16>) -> SocketAddr { SocketAddr::new_spec(ip, if port is Some { port->Some_0 } else { 25565u16 }) }
pub open spec fn bedrock_addr(ip: IpAddr, port: Option<u16>) -> SocketAddr { SocketAddr::new_spec(ip, if port is Some { port->Some_0 } else { 19132u16 }) }
/*@ fn file=crates/lib/src/games/minecraft/mod.rs name=port_or_java_default
spec {
    ensures r == (if port is Some { port->Some_0 } else { 25565u16 }),
}
@*/
/*@ fn file=crates/lib/src/games/minecraft/mod.rs name=port_or_bedrock_default
spec {
    ensures r == (if port is Some { port->Some_0 } else { 19132u16 }),
}
@*/
/*@ fn file=crates/lib/src/games/minecraft/mod.rs name=query_java
spec {
    ensures same(r, ans_java(java_addr(*address, port))),
}
@*/
/*@ fn file=crates/lib/src/games/minecraft/mod.rs name=query_bedrock
spec {
    ensures same(r, ans_bedrock(bedrock_addr(*address, port))),
}
@*/
/*@ fn file=crates/lib/src/games/minecraft/mod.rs name=query_legacy
spec {
    ensures same(r, legacy_auto(java_addr(*address, port))),
}
@*/
/*@ fn file=crates/lib/src/games/minecraft/mod.rs name=query_legacy_specific
spec {
    ensures same(r, ans_legacy(group, java_addr(*address, port))),
}
@*/
/*@ fn file=crates/lib/src/games/minecraft/mod.rs name=query
use R2
spec {
    ensures
        // Java on (ip, port or 25565), then Bedrock on (ip, port or 19132), then the legacy variants on the Java address
        same(r, if ans_java(java_addr(*address, port)) is Ok { ans_java(java_addr(*address, port)) }
                else if ans_bedrock(bedrock_addr(*address, port)) is Ok { Ok(from_bedrock(ans_bedrock(bedrock_addr(*address, port))->Ok_0)) }
                else if legacy_auto(java_addr(*address, port)) is Ok { legacy_auto(java_addr(*address, port)) }
                else { Err(AutoQuery) }),
}
@*/

//@ body-end
} // verus!
fn main() {}
