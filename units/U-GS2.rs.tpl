//@ unit U-GS2 props=C04,C09,C01,C13
// GameSpy 2 client: request / reply framing and the server-variable block
#![allow(unused_imports, dead_code, unused_variables, unused_mut, unused_parens)]
use vstd::prelude::*;
use vstd::std_specs::iter::IteratorSpec;
use std::marker::PhantomData;
use std::convert::TryInto;
use std::collections::HashMap;
use std::cmp::Ordering;

verus! {
/*@ import unit=U-BUF @*/
/*@ include path=std_model2.rs @*/
/*@ include path=wire_model.rs @*/
/*@ include path=net_model.rs @*/
//@ body-begin

/*@ item file=crates/lib/src/protocols/gamespy/protocols/two/protocol.rs kind=struct name=GameSpy2 @*/

/// the GameSpy 2 request: FE FD 00, a 4-byte ping id 00 00 00 01, then FF FF FF (server info, players, teams)
pub open spec fn gs2_request() -> Seq<u8> { seq![0xFEu8, 0xFD, 0x00, 0x00, 0x00, 0x00, 0x01, 0xFF, 0xFF, 0xFF] }
/// a reply: 00, the ping id big-endian, body
pub open spec fn gs2_reply(body: Seq<u8>) -> Seq<u8> { cat(seq![0u8], cat(enc_u32(false, 1u32), body)) }

impl GameSpy2 {
/*@ fn file=crates/lib/src/protocols/gamespy/protocols/two/protocol.rs impl="impl GameSpy2" name=request_data_impl props=C09,C04,C01,C13
use R1 R2
spec {
    ensures
        final(self).retry_count == old(self).retry_count, final(self).socket.dest() == old(self).socket.dest(),
        // C09: exactly one datagram, the documented request
        final(self).socket.attempts() == old(self).socket.attempts().push(gs2_request()),
        r is Ok ==> final(self).socket.sent() == old(self).socket.sent().push(gs2_request()),
        // C04: a reply with the right header is handed on whole, with the index of its body
        forall|body: Seq<u8>| old(self).socket.script().len() > 0 && gs2_reply(body).len() <= 1024
            && old(self).socket.script()[0] == #[trigger] gs2_reply(body)
            ==> (r is Err ==> is_transport_err(r->Err_0.kind)) && (r is Ok ==> r->Ok_0.0@ == gs2_reply(body) && r->Ok_0.1 == 5),
}
body_start {
    broadcast use group_cstr, group_wire;
}
before "let received = self.socket.receive(None)?;" {
    proof { assert(self.socket.attempts().last() =~= gs2_request()); }
}
@*/
}

// ---------------- server-variable block (C04) ----------------
pub open spec fn enc_vars(vs: Seq<(Seq<char>, Seq<char>)>, i: int, tail: Seq<u8>) -> Seq<u8>
    decreases vs.len() - i
{
    if i < 0 || i >= vs.len() { tail } else { rn!(cstr(vs[i].0); cstr(vs[i].1); enc_vars(vs, i + 1, tail)) }
}
pub open spec fn vars_valid(vs: Seq<(Seq<char>, Seq<char>)>) -> bool {
    forall|j: int| 0 <= j < vs.len() ==> no_nul(#[trigger] vs[j].0) && vs[j].0.len() > 0 && no_nul(vs[j].1)
}
pub open spec fn map_of(ins: Seq<(String, String)>) -> Map<String, String>
    decreases ins.len()
{
    if ins.len() == 0 { Map::empty() } else { map_of(ins.drop_last()).insert(ins.last().0, ins.last().1) }
}
/// the block is closed by an empty key with an empty value
pub open spec fn closing(tail: Seq<u8>) -> Seq<u8> { cat(cstr(Seq::<char>::empty()), cat(cstr(Seq::<char>::empty()), tail)) }
pub proof fn lemma_enc_vars_nonempty(vs: Seq<(Seq<char>, Seq<char>)>, i: int, tail: Seq<u8>)
    requires tail.len() > 0
    ensures enc_vars(vs, i, tail).len() > 0
    decreases vs.len() - i
{
    broadcast use group_stream;
    if 0 <= i < vs.len() { lemma_enc_vars_nonempty(vs, i + 1, tail); }
}
pub proof fn lemma_closing(tail: Seq<u8>)
    ensures closing(tail).len() == tail.len() + 2
{
    broadcast use group_stream, group_cstr, group_text;
}

/*@ fn file=crates/lib/src/protocols/gamespy/protocols/two/protocol.rs name=get_server_vars props=C04,C01,C13
use R1 R2
spec {
    requires old(bufferer).wf(),
    ensures
        final(bufferer).wf(), final(bufferer).bytes() == old(bufferer).bytes(),
        // C04: key/value strings up to the empty key + empty value yield exactly those pairs (a later duplicate replacing the
        // earlier); the cursor is left ON the closing NUL (the player table that follows starts with a zero byte)
        forall|vs: Seq<(Seq<char>, Seq<char>)>, tail: Seq<u8>| vars_valid(vs) && old(bufferer).rest() == #[trigger] enc_vars(vs, 0, closing(tail))
            ==> r is Ok && final(bufferer).rest().len() == tail.len() + 1
                && exists|ins: Seq<(String, String)>| ins.len() == vs.len()
                    && (forall|j: int| 0 <= j < vs.len() ==> (#[trigger] ins[j]).0@ == vs[j].0 && ins[j].1@ == vs[j].1)
                    && r->Ok_0@ == map_of(ins),
}
body_start {
    broadcast use group_cstr, group_wire, vstd::std_specs::hash::group_hash_axioms, axiom_string_obeys_key_model;
    let ghost mut ins: Seq<(String, String)> = Seq::empty();
    let ghost rest0 = bufferer.rest();
    proof {
        assert forall|vs: Seq<(Seq<char>, Seq<char>)>, tail: Seq<u8>| vars_valid(vs) && rest0 == #[trigger] enc_vars(vs, 0, closing(tail)) implies
            enc_vars(vs, 0, closing(tail)).len() > 0 by {
            lemma_closing(tail);
            lemma_enc_vars_nonempty(vs, 0, closing(tail));
        }
    }
}
before "let key = bufferer.read_string::<Utf8Decoder>(None)?;" {
    broadcast use group_cstr, group_wire, vstd::std_specs::hash::group_hash_axioms, axiom_string_obeys_key_model;
    proof {
        assert(no_nul(Seq::<char>::empty()));
        assert forall|vs: Seq<(Seq<char>, Seq<char>)>, tail: Seq<u8>| vars_valid(vs) && rest0 == #[trigger] enc_vars(vs, 0, closing(tail)) implies
            (ins.len() < vs.len() ==> bufferer.rest() == cat(cstr(vs[ins.len() as int].0), cat(cstr(vs[ins.len() as int].1), enc_vars(vs, ins.len() as int + 1, closing(tail)))))
            && (ins.len() == vs.len() ==> bufferer.rest() == closing(tail)) by {}
    }
}
before "values.insert(key, value);" {
    let ghost prev = ins;
    proof { ins = ins.push((key, value)); assert(ins.drop_last() =~= prev); assert(ins.last() == (key, value)); }
}
after "values.insert(key, value);" {
    proof {
        assert forall|vs: Seq<(Seq<char>, Seq<char>)>, tail: Seq<u8>| vars_valid(vs) && rest0 == #[trigger] enc_vars(vs, 0, closing(tail)) implies
            enc_vars(vs, ins.len() as int, closing(tail)).len() > 0 by {
            lemma_closing(tail);
            lemma_enc_vars_nonempty(vs, ins.len() as int, closing(tail));
        }
    }
}
loop 1 {
    invariant
        bufferer.wf(), bufferer.bytes() == old(bufferer).bytes(), values@ == map_of(ins), rest0 == old(bufferer).rest(),
        forall|vs: Seq<(Seq<char>, Seq<char>)>, tail: Seq<u8>| vars_valid(vs) && rest0 == #[trigger] enc_vars(vs, 0, closing(tail))
            ==> ins.len() <= vs.len()
                && (forall|j: int| 0 <= j < ins.len() ==> (#[trigger] ins[j]).0@ == vs[j].0 && ins[j].1@ == vs[j].1)
                && (!done_processing_vars ==> bufferer.rest() == enc_vars(vs, ins.len() as int, closing(tail)) && bufferer.rest().len() > 0)
                && (done_processing_vars ==> ins.len() == vs.len() && bufferer.rest().len() == tail.len() + 1),
    decreases bufferer.rest().len() + (if done_processing_vars { 0int } else { 1int }),
}
@*/

//@ body-end
} // verus!
fn main() {}
