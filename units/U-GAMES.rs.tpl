//@ unit U-GAMES props=C07,C01,C09
// Single-game protocols: Savage 2, Frontlines: Fuel of War, Just Cause 2: Multiplayer, Mindustry
#![allow(unused_imports, dead_code, unused_variables, unused_mut, unused_parens)]
use vstd::prelude::*;
use vstd::std_specs::iter::IteratorSpec;
use std::marker::PhantomData;
use std::convert::TryInto;
use std::collections::HashMap;
use std::cmp::Ordering;

verus! {
/*@ import unit=U-BUF @*/
/*@ include path=std_model2.rs @*/
/*@ include path=wire_model.rs @*/
/*@ include path=net_model.rs @*/
//@ body-begin

// ================= Savage 2 =================
// request: one byte 0x01 to port 11235; reply: 12 bytes of header, then name\0 players max time\0 map\0 nextmap\0
// location\0 minplayers gamemode\0 version\0 minlevel   (layout as documented by node-gamedig's savage2 protocol)
pub mod savage2 {
use super::*;
/*@ item file=crates/lib/src/games/savage2/types.rs kind=struct name=Response @*/
pub struct St {
    pub header: Seq<u8>, pub name: Seq<char>, pub players: u8, pub max: u8, pub time: Seq<char>, pub map: Seq<char>, pub next_map: Seq<char>,
    pub location: Seq<char>, pub min: u8, pub mode: Seq<char>, pub version: Seq<char>, pub level_min: u8,
}
pub open spec fn enc(s: St) -> Seq<u8> {
    rn!(s.header; cstr(s.name); seq![s.players]; seq![s.max]; cstr(s.time); cstr(s.map); cstr(s.next_map); cstr(s.location);
        seq![s.min]; cstr(s.mode); cstr(s.version); seq![s.level_min]; Seq::empty())
}
pub open spec fn valid(s: St) -> bool {
    s.header.len() == 12 && no_nul(s.name) && no_nul(s.time) && no_nul(s.map) && no_nul(s.next_map) && no_nul(s.location)
    && no_nul(s.mode) && no_nul(s.version) && enc(s).len() <= DEFAULT_PACKET_SIZE
}
/*@ fn file=crates/lib/src/games/savage2/protocol.rs name=query_with_timeout
spec {
    ensures
        // C07: the reply is decoded field for field (or the transport failed)
        forall|s: St| valid(s) && server_script(SocketAddr::new_spec(*address, if port is Some { port->Some_0 } else { 11235u16 })).len() > 0
            && server_script(SocketAddr::new_spec(*address, if port is Some { port->Some_0 } else { 11235u16 }))[0] == #[trigger] enc(s)
            ==> (r is Err ==> is_transport_err(r->Err_0.kind))
             && (r is Ok ==> r->Ok_0.name@ == s.name && r->Ok_0.players_online == s.players && r->Ok_0.players_maximum == s.max
                    && r->Ok_0.time@ == s.time && r->Ok_0.map@ == s.map && r->Ok_0.next_map@ == s.next_map && r->Ok_0.location@ == s.location
                    && r->Ok_0.players_minimum == s.min && r->Ok_0.game_mode@ == s.mode && r->Ok_0.protocol_version@ == s.version
                    && r->Ok_0.level_minimum == s.level_min),
}
body_start {
    broadcast use group_cstr, group_wire;
}
after "socket.send(&[0x01])?;" {
    // C09: exactly the one-byte request, to the caller's address and the given (or default) port
    assert(socket.sent().len() == 1 && socket.sent()[0] =~= seq![0x01u8]);
    assert(socket.dest().port() == (if port is Some { port->Some_0 } else { 11235u16 }) && socket.dest().ip() == *address);
}
@*/
}

// ---- Valve types used by FFOW (verbatim) and the Valve client as an abstract callee (its contract is proved in U-VALVE) ----
/*@ item file=crates/lib/src/protocols/valve/types.rs kind=enum name=Server
attrs {
#[derive(PartialEq, Eq, Structural, Clone, Copy)]
}
@*/
/*@ item file=crates/lib/src/protocols/valve/types.rs kind=enum name=Environment
attrs {
#[derive(PartialEq, Eq, Structural, Clone, Copy)]
}
@*/
/*@ item file=crates/lib/src/protocols/valve/types.rs kind=enum name=Engine
attrs {
#[derive(PartialEq, Eq, Structural, Clone, Copy)]
}
@*/
impl Server {
/*@ fn file=crates/lib/src/protocols/valve/types.rs impl="impl Server" name=from_gldsrc
use R2
spec {
    ensures
        (value == 100 || value == 68) ==> r is Ok && r->Ok_0 == Server::Dedicated,
        (value == 108 || value == 76) ==> r is Ok && r->Ok_0 == Server::NonDedicated,
        (value == 112 || value == 80) ==> r is Ok && r->Ok_0 == Server::TV,
        !(value == 100 || value == 68 || value == 108 || value == 76 || value == 112 || value == 80) ==> r is Err,
}
@*/
}
impl Environment {
/*@ fn file=crates/lib/src/protocols/valve/types.rs impl="impl Environment" name=from_gldsrc
use R2
spec {
    ensures
        (value == 108 || value == 76) ==> r is Ok && r->Ok_0 == Environment::Linux,
        (value == 119 || value == 87) ==> r is Ok && r->Ok_0 == Environment::Windows,
        (value == 109 || value == 77 || value == 111 || value == 79) ==> r is Ok && r->Ok_0 == Environment::Mac,
        !(value == 108 || value == 76 || value == 119 || value == 87 || value == 109 || value == 77 || value == 111 || value == 79) ==> r is Err,
}
@*/
}
#[verifier::external_body]
pub struct ValveProtocol { _p: core::marker::PhantomData<()> }
/// outcome of one A2S-style exchange with the server at `addr` (uninterpreted, as in U-VALVE)
pub uninterp spec fn a2s_exchange_at(addr: SocketAddr, engine: Engine, protocol: u8, kind: u8, payload: Seq<u8>) -> Result<Seq<u8>, GDErrorKind>;
impl ValveProtocol {
    pub uninterp spec fn addr(&self) -> SocketAddr;
    #[verifier::external_body]
    pub fn new(address: &SocketAddr, timeout_settings: Option<TimeoutSettings>) -> (r: GDResult<Self>)
        ensures r is Ok ==> r->Ok_0.addr() == *address, r is Err ==> is_transport_err(r->Err_0.kind)
    { unimplemented!() }
    #[verifier::external_body]
    pub fn get_request_data(&mut self, engine: &Engine, protocol: u8, kind: u8, payload: Vec<u8>) -> (r: GDResult<Vec<u8>>)
        ensures
            final(self).addr() == old(self).addr(),
            r is Ok <==> a2s_exchange_at(old(self).addr(), *engine, protocol, kind, payload@) is Ok,
            r is Ok ==> r->Ok_0@ == a2s_exchange_at(old(self).addr(), *engine, protocol, kind, payload@)->Ok_0,
            r is Err ==> r->Err_0.kind == a2s_exchange_at(old(self).addr(), *engine, protocol, kind, payload@)->Err_0,
    { unimplemented!() }
}
// `String::from("LSQ").into_bytes()`: the request payload literal (C09; checked by Kani harness ffow_request_literal)
#[verifier::external_body]
pub fn idiom_lsq_bytes() -> (r: Vec<u8>)
    ensures r@ == seq![0x4Cu8, 0x53u8, 0x51u8]
{ String::from("LSQ").into_bytes() }

// ================= Frontlines: Fuel of War =================
// request 'F' (0x46) + "LSQ" to port 5478; reply payload (node-gamedig ffow): protocol, name\0 map\0 mod\0 gamemode\0
// description\0 version\0, game port u16, players, max, listen type, environment, password, secure, avg fps, round,
// max rounds, time left u16
pub mod ffow {
use super::*;
/*@ item file=crates/lib/src/games/ffow/types.rs kind=struct name=Response @*/
pub struct St {
    pub protocol: u8, pub name: Seq<char>, pub map: Seq<char>, pub active_mod: Seq<char>, pub mode: Seq<char>, pub description: Seq<char>,
    pub version: Seq<char>, pub game_port: u16, pub players: u8, pub max: u8, pub server_type: u8, pub environment: u8, pub password: u8,
    pub secure: u8, pub fps: u8, pub round: u8, pub rounds_max: u8, pub time_left: u16,
}
pub open spec fn enc(s: St) -> Seq<u8> {
    rn!(seq![s.protocol]; cstr(s.name); cstr(s.map); cstr(s.active_mod); cstr(s.mode); cstr(s.description); cstr(s.version);
        enc_u16(true, s.game_port); seq![s.players]; seq![s.max]; seq![s.server_type]; seq![s.environment]; seq![s.password];
        seq![s.secure]; seq![s.fps]; seq![s.round]; seq![s.rounds_max]; enc_u16(true, s.time_left); Seq::empty())
}
pub open spec fn valid(s: St) -> bool {
    no_nul(s.name) && no_nul(s.map) && no_nul(s.active_mod) && no_nul(s.mode) && no_nul(s.description) && no_nul(s.version)
    && (s.server_type == 100 || s.server_type == 68 || s.server_type == 108 || s.server_type == 76 || s.server_type == 112 || s.server_type == 80)
    && (s.environment == 108 || s.environment == 76 || s.environment == 119 || s.environment == 87)
}
/*@ fn file=crates/lib/src/games/ffow/protocol.rs name=query_with_timeout
subst `String::from("LSQ").into_bytes()` {
    idiom_lsq_bytes()
}
spec {
    ensures
        forall|s: St| valid(s)
            && a2s_exchange_at(SocketAddr::new_spec(*address, if port is Some { port->Some_0 } else { 5478u16 }), Engine::GoldSrc(true), 0, 0x46u8,
                               seq![0x4Cu8, 0x53u8, 0x51u8]) == Ok::<Seq<u8>, GDErrorKind>(#[trigger] enc(s))
            ==> (r is Err ==> is_transport_err(r->Err_0.kind))
             && (r is Ok ==> r->Ok_0.protocol_version == s.protocol && r->Ok_0.name@ == s.name && r->Ok_0.map@ == s.map
                    && r->Ok_0.active_mod@ == s.active_mod && r->Ok_0.game_mode@ == s.mode && r->Ok_0.description@ == s.description
                    && r->Ok_0.game_version@ == s.version && r->Ok_0.players_online == s.players && r->Ok_0.players_maximum == s.max
                    && r->Ok_0.has_password == (s.password == 1) && r->Ok_0.vac_secured == (s.secure == 1)
                    && r->Ok_0.round == s.round && r->Ok_0.rounds_maximum == s.rounds_max && r->Ok_0.time_left == s.time_left
                    && (r->Ok_0.server_type == Server::Dedicated <==> (s.server_type == 100 || s.server_type == 68))
                    && (r->Ok_0.environment_type == Environment::Linux <==> (s.environment == 108 || s.environment == 76))),
}
body_start {
    broadcast use group_cstr, group_wire;
}
@*/
}

// ================= Just Cause 2: Multiplayer =================
// player section after the GameSpy 3 key/value block: count u16 (big endian), then per player name\0 steamid\0 ping u16
pub mod jc2m {
use super::*;
/*@ item file=crates/lib/src/games/jc2m/types.rs kind=struct name=Player @*/
pub struct PSt { pub name: Seq<char>, pub steam_id: Seq<char>, pub ping: u16 }
pub open spec fn enc_players(ps: Seq<PSt>, i: int, tail: Seq<u8>) -> Seq<u8>
    decreases ps.len() - i
{
    if i < 0 || i >= ps.len() { tail } else { rn!(cstr(ps[i].name); cstr(ps[i].steam_id); enc_u16(false, ps[i].ping); enc_players(ps, i + 1, tail)) }
}
pub open spec fn valid(ps: Seq<PSt>) -> bool { forall|j: int| 0 <= j < ps.len() ==> no_nul(#[trigger] ps[j].name) && no_nul(ps[j].steam_id) }
/*@ fn file=crates/lib/src/games/jc2m/protocol.rs name=parse_players_and_teams props=C07,C01,C13
use R17:0int;Player R18
fn_attrs {
#[verifier::loop_isolation(false)]
}
spec {
    ensures
        // every listed player is returned, whatever the announced count says
        forall|count: u16, ps: Seq<PSt>| valid(ps) && packet@ == #[trigger] cat(enc_u16(false, count), enc_players(ps, 0, Seq::empty()))
            ==> r is Ok && r->Ok_0@.len() == ps.len()
                && forall|j: int| 0 <= j < ps.len() ==> (#[trigger] r->Ok_0@[j]).name@ == ps[j].name && r->Ok_0@[j].steam_id@ == ps[j].steam_id
                                                      && r->Ok_0@[j].ping == ps[j].ping,
}
body_start {
    broadcast use group_cstr, group_wire, group_alloc;
}
loop 1 {
    invariant
        buf.wf(), buf.bytes() == packet@,
        forall|cnt: u16, ps: Seq<PSt>| valid(ps) && packet@ == #[trigger] cat(enc_u16(false, cnt), enc_players(ps, 0, Seq::empty()))
            ==> players@.len() <= ps.len() && buf.rest() == enc_players(ps, players@.len() as int, Seq::empty())
                && forall|j: int| 0 <= j < players@.len() ==> (#[trigger] players@[j]).name@ == ps[j].name && players@[j].steam_id@ == ps[j].steam_id
                                                           && players@[j].ping == ps[j].ping,
    decreases buf.rest().len(),
}
@*/
}

// ================= Mindustry =================
// reply (Mindustry NetworkIO.writeServerData): host, map as length-prefixed strings; players, wave, version as i32 (big
// endian); version type string; gamemode byte; player limit i32; description string; optional mode name string
/*@ item file=crates/lib/src/games/mindustry/types.rs kind=enum name=GameMode
attrs {
#[derive(PartialEq, Eq, Structural)]
}
@*/
pub open spec fn mode_of(b: u8) -> GameMode {
    if b == 0 { GameMode::Survival } else if b == 1 { GameMode::Sandbox } else if b == 2 { GameMode::Attack } else if b == 3 { GameMode::PVP } else { GameMode::Editor }
}
/*@ present file=crates/lib/src/games/mindustry/types.rs text="impl TryFrom<u8> for GameMode { type Error = GDErrorKind;" @*/
impl vstd::std_specs::convert::TryFromSpecImpl<u8> for GameMode {
    open spec fn obeys_try_from_spec() -> bool { true }
    open spec fn try_from_spec(v: u8) -> Result<Self, GDErrorKind> {
        if v <= 4 { Ok(mode_of(v)) } else { Err(GDErrorKind::TypeParse) }
    }
}
impl TryFrom<u8> for GameMode {
    type Error = GDErrorKind;
/*@ fn file=crates/lib/src/games/mindustry/types.rs impl="impl TryFrom<u8> for GameMode" name=try_from
@*/
}
pub mod mindustry {
use super::*;
/*@ item file=crates/lib/src/games/mindustry/types.rs kind=struct name=ServerData @*/
pub struct St {
    pub host: Seq<char>, pub map: Seq<char>, pub players: i32, pub wave: i32, pub version: i32, pub version_type: Seq<char>, pub gamemode: u8,
    pub player_limit: i32, pub description: Seq<char>, pub mode_name: Option<Seq<char>>,
}
pub open spec fn enc(s: St) -> Seq<u8> {
    rn!(lpstr(s.host); lpstr(s.map); enc_i32(false, s.players); enc_i32(false, s.wave); enc_i32(false, s.version); lpstr(s.version_type);
        seq![s.gamemode]; enc_i32(false, s.player_limit); lpstr(s.description);
        if s.mode_name is Some { cat(lpstr(s.mode_name->Some_0), Seq::empty()) } else { Seq::empty() })
}
pub open spec fn lp_fits(t: Seq<char>) -> bool { no_nul(t) && utf8_bytes(t).len() <= 255 }
pub open spec fn valid(s: St) -> bool {
    lp_fits(s.host) && lp_fits(s.map) && lp_fits(s.version_type) && lp_fits(s.description) && s.gamemode <= 4
    && (s.mode_name is Some ==> lp_fits(s.mode_name->Some_0))
}
/*@ fn file=crates/lib/src/games/mindustry/protocol.rs name=parse_server_data
spec {
    requires old(buffer).wf(),
    ensures
        final(buffer).wf(), final(buffer).bytes() == old(buffer).bytes(),
        forall|s: St| D::is_lp() && !B::is_le() && D::d0(delim_of::<D>(None)) == 0u8 && valid(s) && old(buffer).rest() == #[trigger] enc(s)
            ==> r is Ok && r->Ok_0.host@ == s.host && r->Ok_0.map@ == s.map && r->Ok_0.players == s.players && r->Ok_0.wave == s.wave
                && r->Ok_0.version == s.version && r->Ok_0.version_type@ == s.version_type && r->Ok_0.gamemode == mode_of(s.gamemode)
                && r->Ok_0.player_limit == s.player_limit && r->Ok_0.description@ == s.description
                && (s.mode_name is Some ==> r->Ok_0.mode_name is Some && r->Ok_0.mode_name->Some_0@ == s.mode_name->Some_0),
}
body_start {
    broadcast use group_lp, group_wire;
}
@*/
}
//@ body-end
} // verus!
fn main() {}
