//@ unit U-UNREAL props=C06,C01,C13
// Unreal 2 query protocol (crates/lib/src/protocols/unreal2/{protocol,types}.rs)
#![allow(unused_imports, dead_code, unused_variables, unused_mut, unused_parens)]
use vstd::prelude::*;
use vstd::std_specs::iter::IteratorSpec;
use std::marker::PhantomData;
use std::convert::TryInto;
use std::collections::HashMap;
use std::collections::HashSet;
use std::cmp::Ordering;

verus! {
/*@ import unit=U-BUF @*/
/*@ include path=std_model2.rs @*/
/*@ include path=wire_model.rs @*/
/*@ include path=net_model.rs @*/
//@ body-begin

// `result.trim_matches('\0').to_string()` (text post-processing; spec assumed)
#[verifier::external_body]
pub fn idiom_trim_nul(result: String) -> (r: String)
    ensures r@ == ue2_trim(result@)
{ result.trim_matches('\0').to_string() }
/*@ present file=crates/lib/src/protocols/unreal2/protocol.rs text="pub struct Unreal2StringDecoder;" @*/
pub struct Unreal2StringDecoder;
/*@ present file=crates/lib/src/protocols/unreal2/protocol.rs text="impl StringDecoder for Unreal2StringDecoder {" @*/
impl StringDecoder for Unreal2StringDecoder {
/*@ item file=crates/lib/src/protocols/unreal2/protocol.rs impl="impl StringDecoder for Unreal2StringDecoder" kind=type name=Delimiter @*/
/*@ item file=crates/lib/src/protocols/unreal2/protocol.rs impl="impl StringDecoder for Unreal2StringDecoder" kind=const name=DELIMITER @*/
    open spec fn is_utf8() -> bool { false }
    open spec fn is_lp() -> bool { false }
    open spec fn is_ue2() -> bool { true }
    open spec fn d0(d: [u8; 1]) -> u8 { d@[0] }
    proof fn lemma_is_utf8(data: Seq<u8>, d: [u8; 1]) { }
    proof fn lemma_is_lp(data: Seq<u8>, d: [u8; 1]) { }
    proof fn lemma_is_ue2(data: Seq<u8>, d: [u8; 1]) { }
    open spec fn consumed(data: Seq<u8>, d: [u8; 1]) -> nat { ue2_consumed(data, d@[0]) }
    open spec fn text(data: Seq<u8>, d: [u8; 1]) -> Seq<char> { ue2_txt(data, d@[0]) }
    open spec fn decodes(data: Seq<u8>, d: [u8; 1]) -> bool { ue2_ok(data, d@[0]) }
    open spec fn wire(txt: Seq<char>, d: [u8; 1]) -> Seq<u8> { Seq::empty() }
    open spec fn wire_ok(txt: Seq<char>, d: [u8; 1]) -> bool { false }
    proof fn lemma_wire(txt: Seq<char>, d: [u8; 1], tail: Seq<u8>) { }
/*@ fn file=crates/lib/src/protocols/unreal2/protocol.rs impl="impl StringDecoder for Unreal2StringDecoder" name=decode_string
use R8:position_eq
cut "let mut char_skip = 0usize; ... let result = result.replace(" {
    helper: fn idiom_ue2_strip(result: DecodedText) -> (r: String) ensures r@ == ue2_strip(result.view());
    call: let result = idiom_ue2_strip(result);
    ret: result
}
subst `result.trim_matches('\0').to_string()` {
    idiom_trim_nul(result)
}
body_start {
    proof { lemma_first_index_of(data@, delimiter@[0]); }
}
before "length = (length & 0x7f) * 2;" {
    proof {
        assert((length & 0x7f) <= 0x7fusize) by (bit_vector);
        assert(length == data@[0] as usize);
        let b = data@[0];
        assert((b as usize) & 0x7f == (b & 0x7f) as usize) by (bit_vector);
    }
}
@*/
}

// ---- wire forms of well-formed strings and the read lemmas (C06: decoding is a left inverse) ----
/// Latin-1 string: length byte n = |bytes| + 1 (the NUL is counted), the bytes, NUL.  Empty string: a single 0 byte.
pub open spec fn ue2_lat(b: Seq<u8>) -> Seq<u8> {
    if b.len() == 0 { seq![0u8] } else { seq![(b.len() + 1) as u8] + b + seq![0u8] }
}
pub open spec fn ue2_lat_ok(b: Seq<u8>) -> bool { b.len() <= 126 && no_byte(b, 0u8) }
/// UCS-2 string of k <= 127 units (2k bytes)
pub open spec fn ue2_wide(b: Seq<u8>) -> Seq<u8> { seq![(0x80 + b.len() / 2) as u8] + b }
pub open spec fn ue2_wide_ok(b: Seq<u8>) -> bool { b.len() % 2 == 0 && b.len() / 2 <= 127 && b.len() >= 2 && b[0] != 1 }

pub broadcast proof fn lemma_ue2_lat_read(b: Seq<u8>, t: Seq<u8>, z: u8)
    requires ue2_lat_ok(b)
    ensures
        #![trigger ue2_consumed(cat(ue2_lat(b), t), z)]
        #![trigger ue2_ok(cat(ue2_lat(b), t), z)]
        z == 0u8 ==> ue2_consumed(cat(ue2_lat(b), t), z) == ue2_lat(b).len()
                  && (ue2_ok(cat(ue2_lat(b), t), z) <==> !w1252_err(b))
                  && ue2_txt(cat(ue2_lat(b), t), z) == ue2_clean(w1252_text(b)),
{
    if z == 0u8 {
        lemma_cat_is_add(ue2_lat(b), t);
        let data = ue2_lat(b) + t;
        if b.len() == 0 {
            assert(data[0] == 0u8);
            assert(first_index_of(data, 0u8) == 0);
            assert(data.subrange(0, 0) =~= b);
        } else {
            let n = (b.len() + 1) as u8;
            assert(n != 0 && n < 0x80);
            let pre = seq![n] + b;
            assert(no_byte(pre, 0u8)) by {
                assert forall|i: int| 0 <= i < pre.len() implies pre[i] != 0u8 by { if i > 0 { assert(pre[i] == b[i - 1]); } }
            }
            assert(data =~= pre + (seq![0u8] + t));
            lemma_first_index_of_concat(pre, seq![0u8] + t, 0u8);
            assert(first_index_of(data, 0u8) == b.len() + 1);
            assert(data.subrange(1, (b.len() + 1) as int) =~= b);
            assert(data[0] == n);
        }
    }
}
pub broadcast proof fn lemma_ue2_wide_read(b: Seq<u8>, t: Seq<u8>, z: u8)
    requires ue2_wide_ok(b)
    ensures
        #![trigger ue2_consumed(cat(ue2_wide(b), t), z)]
        #![trigger ue2_ok(cat(ue2_wide(b), t), z)]
        ue2_consumed(cat(ue2_wide(b), t), z) == ue2_wide(b).len()
        && (ue2_ok(cat(ue2_wide(b), t), z) <==> !utf16le_err(b))
        && ue2_txt(cat(ue2_wide(b), t), z) == ue2_clean(utf16le_text(b)),
{
    lemma_cat_is_add(ue2_wide(b), t);
    let data = ue2_wide(b) + t;
    let k = (b.len() / 2) as int;
    let n = (0x80 + k) as u8;
    assert(data[0] == n && n >= 0x80);
    assert((n & 0x7f) as int == k) by {
        let kk = k as u8;
        assert(kk <= 127 ==> ((0x80u8 + kk) as u8) & 0x7f == kk) by (bit_vector);
    }
    assert(data[1] == b[0]);
    assert(data.subrange(1, 1 + 2 * k) =~= b);
}
pub broadcast proof fn lemma_default_delimiter_ue2()
    ensures #[trigger] delim_of::<Unreal2StringDecoder>(None::<[u8; 1]>)@[0] == 0u8
{}
pub broadcast group group_ue2 { lemma_ue2_lat_read, lemma_ue2_wide_read, lemma_default_delimiter_ue2, group_stream }

// ---------------- packets ----------------
/*@ item file=crates/lib/src/protocols/unreal2/types.rs kind=enum name=PacketKind
attrs {
#[derive(PartialEq, Eq, Structural, Clone, Copy)]
}
@*/
pub open spec fn kind_of(b: u8) -> PacketKind { if b == 0 { PacketKind::ServerInfo } else if b == 1 { PacketKind::MutatorsAndRules } else { PacketKind::Players } }
pub open spec fn kind_code(k: PacketKind) -> u8 { match k { PacketKind::ServerInfo => 0u8, PacketKind::MutatorsAndRules => 1u8, PacketKind::Players => 2u8 } }
/*@ present file=crates/lib/src/protocols/unreal2/types.rs text="impl TryFrom<u8> for PacketKind { type Error = GDError;" @*/
impl vstd::std_specs::convert::TryFromSpecImpl<u8> for PacketKind {
    open spec fn obeys_try_from_spec() -> bool { false }     // the error value carries a source; only the Ok side is specified below
    open spec fn try_from_spec(v: u8) -> Result<Self, GDError> { Ok(kind_of(v)) }
}
impl TryFrom<u8> for PacketKind {
    type Error = GDError;
/*@ fn file=crates/lib/src/protocols/unreal2/types.rs impl="impl TryFrom<u8> for PacketKind" name=try_from
@*/
}
// `packet_type.try_into()?` with packet_type: u8 -> PacketKind (resolves to the impl above; spec: Ok iff <= 2)
#[verifier::external_body]
pub fn idiom_packet_kind(packet_type: u8) -> (r: GDResult<PacketKind>)
    ensures packet_type <= 2 ==> r is Ok && r->Ok_0 == kind_of(packet_type), packet_type > 2 ==> r is Err && r->Err_0.kind == PacketBad
{ packet_type.try_into() }
// `packet_type as u8` for a PacketKind value
#[verifier::external_body]
pub fn idiom_kind_as_u8(packet_type: PacketKind) -> (r: u8)
    ensures r == kind_code(packet_type)
{ packet_type as u8 }

/*@ item file=crates/lib/src/protocols/unreal2/types.rs kind=struct name=ServerInfo @*/
/*@ item file=crates/lib/src/protocols/unreal2/types.rs kind=struct name=Player @*/
/*@ item file=crates/lib/src/protocols/unreal2/types.rs kind=struct name=Players @*/

// ServerInfo reply body (after the 5-byte header): server id u32, ip string, game port u32, query port u32, name, map,
// game type strings, num players u32, max players u32 (little endian)
pub struct InfoSt { pub server_id: u32, pub ip: Seq<u8>, pub game_port: u32, pub query_port: u32, pub name: Seq<u8>, pub map: Seq<u8>,
                    pub game_type: Seq<u8>, pub num_players: u32, pub max_players: u32 }
pub open spec fn enc_info(s: InfoSt, tail: Seq<u8>) -> Seq<u8> {
    rn!(enc_u32(true, s.server_id); ue2_lat(s.ip); enc_u32(true, s.game_port); enc_u32(true, s.query_port); ue2_lat(s.name); ue2_lat(s.map);
        ue2_lat(s.game_type); enc_u32(true, s.num_players); enc_u32(true, s.max_players); tail)
}
pub open spec fn lat_valid(b: Seq<u8>) -> bool { ue2_lat_ok(b) && !w1252_err(b) }
pub open spec fn info_valid(s: InfoSt) -> bool { lat_valid(s.ip) && lat_valid(s.name) && lat_valid(s.map) && lat_valid(s.game_type) }
pub open spec fn lat_text(b: Seq<u8>) -> Seq<char> { ue2_clean(w1252_text(b)) }

impl ServerInfo {
/*@ fn file=crates/lib/src/protocols/unreal2/types.rs impl="impl ServerInfo" name=parse
spec {
    requires old(buffer).wf(),
    ensures
        final(buffer).wf(), final(buffer).bytes() == old(buffer).bytes(),
        forall|s: InfoSt, tail: Seq<u8>| B::is_le() && info_valid(s) && old(buffer).rest() == #[trigger] enc_info(s, tail)
            ==> r is Ok && r->Ok_0.server_id == s.server_id && r->Ok_0.ip@ == lat_text(s.ip) && r->Ok_0.game_port == s.game_port
                && r->Ok_0.query_port == s.query_port && r->Ok_0.name@ == lat_text(s.name) && r->Ok_0.map@ == lat_text(s.map)
                && r->Ok_0.game_type@ == lat_text(s.game_type) && r->Ok_0.num_players == s.num_players && r->Ok_0.max_players == s.max_players
                && !r->Ok_0.password && final(buffer).rest() == tail,
}
body_start {
    broadcast use group_ue2, group_wire;
}
@*/
}

// Players reply body: repeated (id u32, name string, ping u32, score i32, stats id u32); ping == 0 marks a bot
pub struct PlSt { pub id: u32, pub name: Seq<u8>, pub ping: u32, pub score: i32, pub stats_id: u32 }
pub open spec fn enc_pls(ps: Seq<PlSt>, i: int) -> Seq<u8>
    decreases ps.len() - i
{
    if i < 0 || i >= ps.len() { Seq::empty() } else {
        rn!(enc_u32(true, ps[i].id); ue2_lat(ps[i].name); enc_u32(true, ps[i].ping); enc_i32(true, ps[i].score); enc_u32(true, ps[i].stats_id); enc_pls(ps, i + 1))
    }
}
pub open spec fn pls_valid(ps: Seq<PlSt>) -> bool { forall|j: int| 0 <= j < ps.len() ==> lat_valid(#[trigger] ps[j].name) }
pub open spec fn pl_matches(p: Player, s: PlSt) -> bool {
    p.id == s.id && p.name@ == lat_text(s.name) && p.ping == s.ping && p.score == s.score && p.stats_id == s.stats_id
}
/// the humans (ping != 0) / bots (ping == 0) among the first n entries, in order
pub open spec fn humans(ps: Seq<PlSt>, n: int) -> Seq<PlSt> decreases n { if n <= 0 { Seq::empty() } else if ps[n - 1].ping != 0 { humans(ps, n - 1).push(ps[n - 1]) } else { humans(ps, n - 1) } }
pub open spec fn bots(ps: Seq<PlSt>, n: int) -> Seq<PlSt> decreases n { if n <= 0 { Seq::empty() } else if ps[n - 1].ping == 0 { bots(ps, n - 1).push(ps[n - 1]) } else { bots(ps, n - 1) } }
pub open spec fn list_matches(v: Seq<Player>, from: int, ss: Seq<PlSt>) -> bool {
    v.len() == from + ss.len() && forall|j: int| 0 <= j < ss.len() ==> pl_matches(#[trigger] v[from + j], ss[j])
}

impl Players {
/*@ fn file=crates/lib/src/protocols/unreal2/types.rs impl="impl Players" name=with_capacity props=C13,C01
use R17
spec {
    requires capacity <= 50,      // C13: callers clamp the server-supplied count (MAXIMUM_PLAYER_PREALLOCATION)
    ensures r.players@.len() == 0, r.bots@.len() == 0,
}
@*/
/*@ fn file=crates/lib/src/protocols/unreal2/types.rs impl="impl Players" name=total_len
spec {
    requires self.players@.len() + self.bots@.len() <= usize::MAX,
    ensures r == self.players@.len() + self.bots@.len(),
}
@*/
/*@ fn file=crates/lib/src/protocols/unreal2/types.rs impl="impl Players" name=parse
fn_attrs {
#[verifier::loop_isolation(false)]
}
spec {
    requires old(buffer).wf(),
    ensures
        final(buffer).wf(), final(buffer).bytes() == old(buffer).bytes(),
        // nothing already collected is touched; every listed player is appended exactly once, as a bot iff its ping is 0
        forall|ps: Seq<PlSt>| B::is_le() && pls_valid(ps) && old(buffer).rest() == #[trigger] enc_pls(ps, 0)
            ==> r is Ok
                && list_matches(final(self).players@, old(self).players@.len() as int, humans(ps, ps.len() as int))
                && list_matches(final(self).bots@, old(self).bots@.len() as int, bots(ps, ps.len() as int))
                && final(self).players@.subrange(0, old(self).players@.len() as int) == old(self).players@
                && final(self).bots@.subrange(0, old(self).bots@.len() as int) == old(self).bots@,
}
body_start {
    broadcast use group_ue2, group_wire;
    let ghost mut n: int = 0;
    let ghost p0 = self.players@;
    let ghost b0 = self.bots@;
}
before "if player.ping == 0 {" {
    proof { n = n + 1; }
}
loop 1 {
    invariant
        buffer.wf(), buffer.bytes() == old(buffer).bytes(), n >= 0,
        self.players@.len() >= p0.len(), self.bots@.len() >= b0.len(),
        self.players@.subrange(0, p0.len() as int) == p0, self.bots@.subrange(0, b0.len() as int) == b0,
        forall|ps: Seq<PlSt>| B::is_le() && pls_valid(ps) && old(buffer).rest() == #[trigger] enc_pls(ps, 0)
            ==> n <= ps.len() && buffer.rest() == enc_pls(ps, n)
                && list_matches(self.players@, p0.len() as int, humans(ps, n))
                && list_matches(self.bots@, b0.len() as int, bots(ps, n)),
    decreases buffer.rest().len(),
}
@*/
}

// MutatorsAndRules reply body: repeated (key string, value string)
pub open spec fn enc_kvs(kv: Seq<(Seq<u8>, Seq<u8>)>, i: int) -> Seq<u8>
    decreases kv.len() - i
{
    if i < 0 || i >= kv.len() { Seq::empty() } else { rn!(ue2_lat(kv[i].0); ue2_lat(kv[i].1); enc_kvs(kv, i + 1)) }
}
pub open spec fn kvs_valid(kv: Seq<(Seq<u8>, Seq<u8>)>) -> bool { forall|j: int| 0 <= j < kv.len() ==> lat_valid(#[trigger] kv[j].0) && lat_valid(kv[j].1) }
/*@ item file=crates/lib/src/protocols/unreal2/types.rs kind=struct name=MutatorsAndRules @*/
// ghost view of the collected data: the (key, value) pairs recorded so far, in arrival order.  `mar_record` is the
// statement run that files one pair under `mutators` / `rules` (HashSet / HashMap<String, Vec<String>> manipulation through
// get_mut, outside Verus' reach); it is cut out verbatim (R24) and its effect on the ghost view is ASSUMED:
impl MutatorsAndRules {
    pub uninterp spec fn pairs(&self) -> Seq<(Seq<char>, Option<Seq<char>>)>;
}
// #[derive(Default)] on the real struct: empty mutator set and rule map (assumed)
impl Default for MutatorsAndRules {
    #[verifier::external_body]
    fn default() -> (r: Self) ensures r.pairs() == Seq::<(Seq<char>, Option<Seq<char>>)>::empty() { unimplemented!() }
}
impl MutatorsAndRules {
/*@ fn file=crates/lib/src/protocols/unreal2/types.rs impl="impl MutatorsAndRules" name=parse
fn_attrs {
#[verifier::loop_isolation(false)]
}
cut "if key.eq_ignore_ascii_case ... @ifelse" {
    in: impl MutatorsAndRules
    helper: fn idiom_mar_record(&mut self, key: String, value: Option<String>) ensures final(self).pairs() == old(self).pairs().push((key@, if value is Some { Some(value->Some_0@) } else { None::<Seq<char>> }));
    call: self.idiom_mar_record(key, value); proof { n = n + 1; }
    ret: ()
}
spec {
    requires old(buffer).wf(),
    ensures
        final(buffer).wf(), final(buffer).bytes() == old(buffer).bytes(),
        // every key/value pair of a well-formed body is recorded once, in order, and nothing else is
        forall|kv: Seq<(Seq<u8>, Seq<u8>)>| B::is_le() && kvs_valid(kv) && old(buffer).rest() == #[trigger] enc_kvs(kv, 0)
            ==> r is Ok && final(self).pairs().len() == old(self).pairs().len() + kv.len()
                && final(self).pairs().subrange(0, old(self).pairs().len() as int) == old(self).pairs()
                && forall|j: int| 0 <= j < kv.len() ==> #[trigger] final(self).pairs()[old(self).pairs().len() + j] == (lat_text(kv[j].0), Some(lat_text(kv[j].1))),
}
body_start {
    broadcast use group_ue2, group_wire;
    let ghost mut n: int = 0;
    let ghost pairs0 = self.pairs();
}
loop 1 {
    invariant
        buffer.wf(), buffer.bytes() == old(buffer).bytes(), n >= 0,
        self.pairs().len() == pairs0.len() + n, self.pairs().subrange(0, pairs0.len() as int) == pairs0,
        forall|kv: Seq<(Seq<u8>, Seq<u8>)>| B::is_le() && kvs_valid(kv) && old(buffer).rest() == #[trigger] enc_kvs(kv, 0)
            ==> n <= kv.len() && buffer.rest() == enc_kvs(kv, n)
                && forall|j: int| 0 <= j < n ==> #[trigger] self.pairs()[pairs0.len() + j] == (lat_text(kv[j].0), Some(lat_text(kv[j].1))),
    decreases buffer.rest().len(),
}
@*/
}

// ---------------- the protocol client ----------------
/*@ item file=crates/lib/src/protocols/unreal2/protocol.rs kind=struct name=Unreal2Protocol @*/
/*@ item file=crates/lib/src/protocols/unreal2/protocol.rs kind=const name=PACKET_SIZE @*/
/*@ item file=crates/lib/src/protocols/unreal2/protocol.rs kind=const name=DEFAULT_PLAYER_PREALLOCATION @*/
/*@ item file=crates/lib/src/protocols/unreal2/protocol.rs kind=const name=MAXIMUM_PLAYER_PREALLOCATION @*/
/// the Unreal 2 request datagram: 79 00 00 00 <packet kind>
pub open spec fn ue2_request(k: PacketKind) -> Seq<u8> { seq![0x79u8, 0u8, 0u8, 0u8, kind_code(k)] }
pub open spec fn all_requests(sent: Seq<Seq<u8>>, from: int) -> bool {
    forall|i: int| from <= i < sent.len() ==> exists|k: PacketKind| #[trigger] sent[i] == ue2_request(k)
}
pub open spec fn grew(a: Seq<Seq<u8>>, b: Seq<Seq<u8>>) -> bool { a.len() <= b.len() && forall|i: int| 0 <= i < a.len() ==> #[trigger] b[i] == a[i] }
pub open spec fn never_requested(sent: Seq<Seq<u8>>, from: int, k: PacketKind) -> bool {
    forall|i: int| from <= i < sent.len() ==> #[trigger] sent[i] != ue2_request(k)
}

impl Unreal2Protocol {
/*@ fn file=crates/lib/src/protocols/unreal2/protocol.rs impl="impl Unreal2Protocol" name=get_request_data_impl props=C09,C01,C13
subst "packet_type as u8" {
    idiom_kind_as_u8(packet_type)
}
spec {
    ensures
        final(self).retry_count == old(self).retry_count,
        final(self).socket.script().len() <= old(self).socket.script().len(),
        // C09: exactly one datagram, the documented request for this packet kind; C13: one request per call
        r is Ok ==> final(self).socket.sent() == old(self).socket.sent().push(ue2_request(packet_type)),
        r is Err ==> final(self).socket.sent() == old(self).socket.sent() || final(self).socket.sent() == old(self).socket.sent().push(ue2_request(packet_type)),
        r is Err ==> is_transport_err(r->Err_0.kind),
        r is Ok ==> old(self).socket.script().len() > 0 && r->Ok_0@ == truncated(old(self).socket.script()[0], Some(1024usize))
                 && final(self).socket.script() == old(self).socket.script().drop_first(),
}
after "self.socket.send(&request)?;" {
    proof { assert(request@ =~= ue2_request(packet_type)); }
}
@*/
// the retry wrapper: a closure capturing `&mut self` is outside Verus; contract discharged by Kani (retry_wiring_unreal2)
/*@ fn file=crates/lib/src/protocols/unreal2/protocol.rs impl="impl Unreal2Protocol" name=get_request_data props=C10,C01 assume=kani:retry_wiring_unreal2
spec {
    ensures
        final(self).retry_count == old(self).retry_count,
        final(self).socket.script().len() <= old(self).socket.script().len(),
        grew(old(self).socket.sent(), final(self).socket.sent()),
        forall|i: int| old(self).socket.sent().len() <= i < final(self).socket.sent().len() ==> #[trigger] final(self).socket.sent()[i] == ue2_request(packet_type),
}
@*/
/*@ fn file=crates/lib/src/protocols/unreal2/protocol.rs impl="impl Unreal2Protocol" name=consume_response_headers props=C06,C01
use R1
subst "packet_type.try_into()?" {
    idiom_packet_kind(packet_type)?
}
spec {
    requires old(buffer).wf(),
    ensures
        final(buffer).wf(), final(buffer).bytes() == old(buffer).bytes(),
        // 4 header bytes and the packet kind are consumed; Ok iff the kind is the expected one
        forall|h: Seq<u8>, k: u8, body: Seq<u8>| h.len() == 4 && old(buffer).rest() == #[trigger] cat(h, cat(seq![k], body))
            ==> (r is Ok <==> (k <= 2 && kind_of(k) == expected_packet_type)) && (r is Ok ==> final(buffer).rest() == body),
}
body_start {
    broadcast use group_stream;
}
@*/
/*@ fn file=crates/lib/src/protocols/unreal2/protocol.rs impl="impl Unreal2Protocol" name=query_server_info props=C06,C01
spec {
    ensures
        final(self).retry_count == old(self).retry_count,
        grew(old(self).socket.sent(), final(self).socket.sent()),
        forall|i: int| old(self).socket.sent().len() <= i < final(self).socket.sent().len() ==> #[trigger] final(self).socket.sent()[i] == ue2_request(PacketKind::ServerInfo),
}
@*/
/*@ fn file=crates/lib/src/protocols/unreal2/protocol.rs impl="impl Unreal2Protocol" name=query_mutators_and_rules props=C06,C01,C13
use R1
fn_attrs {
#[verifier::loop_isolation(false)]
}
spec {
    ensures
        final(self).retry_count == old(self).retry_count,
        grew(old(self).socket.sent(), final(self).socket.sent()),
        forall|i: int| old(self).socket.sent().len() <= i < final(self).socket.sent().len() ==> #[trigger] final(self).socket.sent()[i] == ue2_request(PacketKind::MutatorsAndRules),
}
body_start {
    let ghost sent1 = self.socket.sent();
}
loop 1 {
    invariant
        self.retry_count == old(self).retry_count, grew(old(self).socket.sent(), self.socket.sent()),
        forall|i: int| old(self).socket.sent().len() <= i < self.socket.sent().len() ==> #[trigger] self.socket.sent()[i] == ue2_request(PacketKind::MutatorsAndRules),
    decreases self.socket.script().len(),
}
@*/
}

// Rust guarantee: a Vec of a non-zero-sized element type holds at most isize::MAX elements
pub axiom fn axiom_vec_len_player(v: &Vec<Player>) ensures v@.len() <= isize::MAX;

/*@ item file=crates/lib/src/protocols/types.rs kind=enum name=GatherToggle
attrs {
#[derive(PartialEq, Eq, Structural, Clone, Copy)]
}
@*/
pub mod protocols { pub mod types { pub use crate::GatherToggle; } }
/*@ item file=crates/lib/src/protocols/unreal2/types.rs kind=struct name=GatheringSettings @*/
/*@ item file=crates/lib/src/protocols/unreal2/types.rs kind=struct name=Response @*/

impl Unreal2Protocol {
/*@ fn file=crates/lib/src/protocols/unreal2/protocol.rs impl="impl Unreal2Protocol" name=query_players props=C06,C01,C13
use ALLOW:Players::with_capacity
fn_attrs {
#[verifier::loop_isolation(false)]
}
closure "|i| i.num_players.try_into().ok()" {
    |i: &ServerInfo| -> (ret: Option<usize>) { i.num_players.try_into().ok() }
}
spec {
    ensures
        final(self).retry_count == old(self).retry_count,
        grew(old(self).socket.sent(), final(self).socket.sent()),
        forall|i: int| old(self).socket.sent().len() <= i < final(self).socket.sent().len() ==> #[trigger] final(self).socket.sent()[i] == ue2_request(PacketKind::Players),
}
before "if players.total_len() >= num_players {" {
    proof { axiom_vec_len_player(&players.players); axiom_vec_len_player(&players.bots); }
}
loop 1 {
    invariant
        self.retry_count == old(self).retry_count, grew(old(self).socket.sent(), self.socket.sent()),
        forall|i: int| old(self).socket.sent().len() <= i < self.socket.sent().len() ==> #[trigger] self.socket.sent()[i] == ue2_request(PacketKind::Players),
    decreases self.socket.script().len() + (if players_data is Ok { 1int } else { 0int }),
}
@*/
}

pub proof fn lemma_requests_distinct(k1: PacketKind, k2: PacketKind)
    requires k1 != k2
    ensures ue2_request(k1) != ue2_request(k2)
{
    assert(ue2_request(k1)[4] == kind_code(k1));
    assert(ue2_request(k2)[4] == kind_code(k2));
}
impl Unreal2Protocol {
// C11 for Unreal 2: a section set to Skip is never requested (send log) and comes back empty; Enforce propagates failure
/*@ fn file=crates/lib/src/protocols/unreal2/protocol.rs impl="impl Unreal2Protocol" name=query props=C11,C01,C06
use R4:maybe_gather@crates/lib/src/utils.rs ALLOW:Players::with_capacity
cut "if let Some(password) = mutators_and_rules.rules.get ... @ifelse" {
    helper: fn idiom_ue2_password(server_info: &mut ServerInfo, mutators_and_rules: &MutatorsAndRules) ensures final(server_info).name == old(server_info).name && final(server_info).map == old(server_info).map && final(server_info).game_type == old(server_info).game_type && final(server_info).num_players == old(server_info).num_players && final(server_info).max_players == old(server_info).max_players && final(server_info).ip == old(server_info).ip && final(server_info).server_id == old(server_info).server_id && final(server_info).game_port == old(server_info).game_port && final(server_info).query_port == old(server_info).query_port;
    call: idiom_ue2_password(&mut server_info, &mutators_and_rules);
    ret: ()
}
closure "|| Players::with_capacity(0)" {
    || -> (ret: Players) ensures ret.players@.len() == 0 && ret.bots@.len() == 0 { Players::with_capacity(0) }
}
spec {
    ensures
        final(self).retry_count == old(self).retry_count,
        grew(old(self).socket.sent(), final(self).socket.sent()),
        gather_settings.mutators_and_rules == GatherToggle::Skip ==> never_requested(final(self).socket.sent(), old(self).socket.sent().len() as int, PacketKind::MutatorsAndRules),
        gather_settings.players == GatherToggle::Skip ==> never_requested(final(self).socket.sent(), old(self).socket.sent().len() as int, PacketKind::Players),
        r is Ok && gather_settings.mutators_and_rules == GatherToggle::Skip ==> r->Ok_0.mutators_and_rules.pairs().len() == 0,
        r is Ok && gather_settings.players == GatherToggle::Skip ==> r->Ok_0.players.players@.len() == 0 && r->Ok_0.players.bots@.len() == 0,
}
body_start {
    proof {
        lemma_requests_distinct(PacketKind::ServerInfo, PacketKind::MutatorsAndRules);
        lemma_requests_distinct(PacketKind::ServerInfo, PacketKind::Players);
        lemma_requests_distinct(PacketKind::MutatorsAndRules, PacketKind::Players);
    }
}
@*/
}
//@ body-end
} // verus!
fn main() {}
