//@ unit U-GS3 props=C08,C09,C01,C13
// GameSpy 3 client: framing check, challenge handshake, data request, splitnum packet table
#![allow(unused_imports, dead_code, unused_variables, unused_mut, unused_parens)]
use vstd::prelude::*;
use vstd::std_specs::iter::IteratorSpec;
use std::marker::PhantomData;
use std::convert::TryInto;
use std::collections::HashMap;
use std::cmp::Ordering;

verus! {
/*@ import unit=U-BUF @*/
/*@ include path=std_model2.rs @*/
/*@ include path=wire_model.rs @*/
/*@ include path=net_model.rs @*/
//@ body-begin

/*@ item file=crates/lib/src/protocols/gamespy/protocols/three/protocol.rs kind=const name=THIS_SESSION_ID
attrs {
pub
}
@*/
/*@ item file=crates/lib/src/protocols/gamespy/protocols/three/protocol.rs kind=const name=PACKET_SIZE @*/
/*@ item file=crates/lib/src/protocols/gamespy/protocols/three/protocol.rs kind=struct name=RequestPacket @*/
/*@ item file=crates/lib/src/protocols/gamespy/protocols/three/protocol.rs kind=struct name=GameSpy3 @*/

/// GameSpy 3 request framing: FE FD style header (big-endian), kind, session id (big-endian), optional challenge (big-endian,
/// two's complement), optional 4 payload bytes.  Checked on the real RequestPacket::to_bytes by Kani (gs3_request_packet_to_bytes).
pub open spec fn gs3_frame(header: u16, kind: u8, session_id: u32, challenge: Option<i32>, payload: Option<[u8; 4]>) -> Seq<u8> {
    enc_u16(false, header).push(kind) + enc_u32(false, session_id)
        + (if challenge is Some { enc_i32(false, challenge->Some_0) } else { Seq::<u8>::empty() })
        + (if payload is Some { payload->Some_0@ } else { Seq::<u8>::empty() })
}
impl RequestPacket {
/*@ fn file=crates/lib/src/protocols/gamespy/protocols/three/protocol.rs impl="impl RequestPacket" name=to_bytes props=C09 assume=kani:gs3_request_packet_to_bytes
use ALLOW:Vec::with_capacity
spec {
    ensures r@ == gs3_frame(self.header, self.kind, self.session_id, self.challenge, self.payload),
}
@*/
}

/// decimal text -> i32 as `str::parse::<i32>` does it (abstract; Err for anything that is not a decimal i32)
pub uninterp spec fn parse_i32(text: Seq<char>) -> Option<i32>;
// `challenge_as_string .parse() .map_err(|e| TypeParse.context(e))?` with the target type i32
#[verifier::external_body]
pub fn idiom_parse_i32(challenge_as_string: String) -> (r: GDResult<i32>)
    ensures r is Ok <==> parse_i32(challenge_as_string@) is Some,
            r is Ok ==> r->Ok_0 == parse_i32(challenge_as_string@)->Some_0,
            r is Err ==> r->Err_0.kind == TypeParse,
{ challenge_as_string .parse() .map_err(|e| -> (ret: GDError) ensures ret.kind == TypeParse { TypeParse.context(e) }) }
// `buf.read_string::<Utf8Decoder>(None)? != "splitnum"` : comparison of the decoded text with the literal
#[verifier::external_body]
pub fn idiom_is_not_splitnum(s: String) -> (r: bool)
    ensures r == (s@ != "splitnum"@)
{ s != "splitnum" }
// `values.iter().any(Vec::is_empty)`
#[verifier::external_body]
pub fn idiom_any_empty(values: &Vec<Vec<u8>>) -> (r: bool)
    ensures r == exists|j: int| 0 <= j < values@.len() && (#[trigger] values@[j])@.len() == 0
{ values.iter().any(Vec::is_empty) }

/// body of the handshake reply: the challenge as a NUL-terminated decimal string
pub open spec fn hs_body(text: Seq<char>) -> Seq<u8> { cat(cstr(text), Seq::empty()) }
pub open spec fn handshake_request() -> Seq<u8> { gs3_frame(65277u16, 9u8, THIS_SESSION_ID, None::<i32>, None::<[u8; 4]>) }
pub open spec fn data_request(challenge: Option<i32>, payload: [u8; 4]) -> Seq<u8> { gs3_frame(65277u16, 0u8, THIS_SESSION_ID, challenge, Some(payload)) }
/// a reply datagram: kind, session id 1 (big-endian), body
pub open spec fn gs3_reply(kind: u8, body: Seq<u8>) -> Seq<u8> { cat(seq![kind], cat(enc_u32(false, THIS_SESSION_ID), body)) }

impl GameSpy3 {
/*@ fn file=crates/lib/src/protocols/gamespy/protocols/three/protocol.rs impl="impl GameSpy3" name=receive props=C01,C13,C09,C08
use R1 R2
spec {
    ensures
        final(self).socket.sent() == old(self).socket.sent(), final(self).socket.attempts() == old(self).socket.attempts(),
        final(self).socket.dest() == old(self).socket.dest(),
        final(self).payload == old(self).payload, final(self).single_packets == old(self).single_packets, final(self).retry_count == old(self).retry_count,
        r is Ok ==> old(self).socket.script().len() > 0 && final(self).socket.script() == old(self).socket.script().drop_first(),
        r is Err ==> final(self).socket.script().len() <= old(self).socket.script().len(),
        // a datagram of the asked kind with our session id yields exactly its body (up to the requested size)
        forall|body: Seq<u8>| old(self).socket.script().len() > 0 && gs3_reply(kind, body).len() <= (if size is Some { size->Some_0 } else { 2048usize })
            && old(self).socket.script()[0] == #[trigger] gs3_reply(kind, body)
            ==> (r is Err ==> r->Err_0.kind == PacketReceive) && (r is Ok ==> r->Ok_0@ == body),
}
body_start {
    broadcast use group_cstr, group_wire;
}
@*/

/*@ fn file=crates/lib/src/protocols/gamespy/protocols/three/protocol.rs impl="impl GameSpy3" name=make_initial_handshake props=C09,C01,C13
use R1 R2
subst `challenge_as_string
            .parse()
            .map_err(|e| -> (ret: GDError) ensures ret.kind == TypeParse { TypeParse.context(e) })?` {
    idiom_parse_i32(challenge_as_string)?
}
spec {
    ensures
        final(self).socket.dest() == old(self).socket.dest(),
        final(self).payload == old(self).payload, final(self).single_packets == old(self).single_packets, final(self).retry_count == old(self).retry_count,
        // C09: exactly one datagram, the handshake request
        final(self).socket.attempts() == old(self).socket.attempts().push(handshake_request()),
        r is Ok ==> final(self).socket.sent() == old(self).socket.sent().push(handshake_request()),
        r is Ok ==> old(self).socket.script().len() > 0 && final(self).socket.script() == old(self).socket.script().drop_first(),
        r is Err ==> final(self).socket.script().len() <= old(self).socket.script().len(),
        // C09: whatever challenge the server names (negative ones included), it is what the caller gets; only 0 means "none"
        forall|text: Seq<char>| no_nul(text) && parse_i32(text) is Some && old(self).socket.script().len() > 0
            && gs3_reply(9u8, hs_body(text)).len() <= 16
            && old(self).socket.script()[0] == #[trigger] gs3_reply(9u8, hs_body(text))
            ==> (r is Err ==> is_transport_err(r->Err_0.kind))
             && (r is Ok ==> r->Ok_0 == (if parse_i32(text)->Some_0 == 0 { None::<i32> } else { Some(parse_i32(text)->Some_0) })),
}
body_start {
    broadcast use group_cstr, group_wire;
}
@*/

/*@ fn file=crates/lib/src/protocols/gamespy/protocols/three/protocol.rs impl="impl GameSpy3" name=send_data_request props=C09,C01,C13
spec {
    ensures
        final(self).socket.dest() == old(self).socket.dest(), final(self).socket.script() == old(self).socket.script(),
        final(self).payload == old(self).payload, final(self).single_packets == old(self).single_packets, final(self).retry_count == old(self).retry_count,
        // C09: the data request carries exactly the challenge handed in, in the protocol's encoding, and the configured payload
        final(self).socket.attempts() == old(self).socket.attempts().push(data_request(challenge, old(self).payload)),
        r is Ok ==> final(self).socket.sent() == old(self).socket.sent().push(data_request(challenge, old(self).payload)),
        r is Err ==> final(self).socket.sent() == old(self).socket.sent() && r->Err_0.kind == PacketSend,
}
@*/
}

// ---------------- splitnum packet table (C08) ----------------
/// one data packet body: "splitnum\0", id byte (bit 7 = last packet), one unknown byte, data
pub open spec fn split_body(id: u8, unknown: u8, data: Seq<u8>) -> Seq<u8> { rn!(cstr("splitnum"@); seq![id]; seq![unknown]; data) }
pub struct Pk { pub id: u8, pub unknown: u8, pub data: Seq<u8> }
pub open spec fn pk_valid(p: Pk) -> bool { p.data.len() > 0 && gs3_reply(0u8, split_body(p.id, p.unknown, p.data)).len() <= 2048 }
pub open spec fn pk_index(p: Pk) -> int { (p.id & 0x7f) as int }
pub open spec fn pk_last(p: Pk) -> bool { (p.id & 0x80) > 0 }
/// the table after the first n packets of `ps` have been filed: slot i holds the data of the latest packet with index i
pub open spec fn slot_after(ps: Seq<Pk>, n: int, i: int) -> Seq<u8>
    decreases n
{
    if n <= 0 { Seq::empty() } else if pk_index(ps[n - 1]) == i { ps[n - 1].data } else { slot_after(ps, n - 1, i) }
}
pub open spec fn len_after(ps: Seq<Pk>, n: int) -> int
    decreases n
{
    if n <= 0 { 0 } else { let l = len_after(ps, n - 1); if pk_index(ps[n - 1]) + 1 > l { pk_index(ps[n - 1]) + 1 } else { l } }
}

/// hypothesis on the server: handshake reply naming a decimal challenge, then the data packets `pks` in ARRIVAL order; the packet
/// flagged "last" has the highest id and is the final datagram (the client stops reading there), the others come in any order
pub open spec fn gs3_script(script: Seq<Seq<u8>>, text: Seq<char>, pks: Seq<Pk>) -> bool {
    pks.len() >= 1 && script.len() >= 1 + pks.len()
    && no_nul(text) && parse_i32(text) is Some && gs3_reply(9u8, hs_body(text)).len() <= 16 && script[0] == gs3_reply(9u8, hs_body(text))
    && (forall|j: int| 0 <= j < pks.len() ==> pk_valid(#[trigger] pks[j]) && script[1 + j] == gs3_reply(0u8, split_body(pks[j].id, pks[j].unknown, pks[j].data)))
    && (forall|j: int| 0 <= j < pks.len() - 1 ==> !pk_last(#[trigger] pks[j]) && pk_index(pks[j]) < pk_index(pks.last()))
    && pk_last(pks.last())
    // the set of packets is complete: every id up to the last one occurs
    && (forall|i: int| 0 <= i <= pk_index(pks.last()) ==> #[trigger] has_id(pks, i))
}
pub open spec fn has_id(pks: Seq<Pk>, i: int) -> bool { exists|j: int| 0 <= j < pks.len() && pk_index(#[trigger] pks[j]) == i }
pub proof fn lemma_slot_filled(ps: Seq<Pk>, n: int, i: int, j: int)
    requires 0 <= j < n <= ps.len(), pk_index(ps[j]) == i, forall|q: int| 0 <= q < n ==> pk_valid(#[trigger] ps[q])
    ensures slot_after(ps, n, i).len() > 0
    decreases n
{
    if pk_index(ps[n - 1]) != i { lemma_slot_filled(ps, n - 1, i, j); }
}
pub proof fn lemma_table_ext(a: Seq<Pk>, b: Seq<Pk>, n: int, i: int)
    requires 0 <= n <= a.len(), n <= b.len(), forall|j: int| 0 <= j < n ==> a[j] == b[j]
    ensures slot_after(a, n, i) == slot_after(b, n, i), len_after(a, n) == len_after(b, n)
    decreases n
{
    if n > 0 { lemma_table_ext(a, b, n - 1, i); }
}
pub proof fn lemma_slot_beyond(ps: Seq<Pk>, n: int, i: int)
    requires 0 <= n <= ps.len(), i >= len_after(ps, n)
    ensures slot_after(ps, n, i) == Seq::<u8>::empty()
    decreases n
{
    if n > 0 { lemma_slot_beyond(ps, n - 1, i); }
}
pub proof fn lemma_len_bound(ps: Seq<Pk>, n: int, b: int)
    requires 0 <= n <= ps.len(), b >= 0, forall|j: int| 0 <= j < n ==> pk_index(#[trigger] ps[j]) < b
    ensures len_after(ps, n) <= b
    decreases n
{
    if n > 0 { lemma_len_bound(ps, n - 1, b); }
}

impl GameSpy3 {
/*@ fn file=crates/lib/src/protocols/gamespy/protocols/three/protocol.rs impl="impl GameSpy3" name=get_server_packets_impl props=C08,C09,C01,C13
use R1 R2
subst `buf.read_string::<Utf8Decoder>(None)? != "splitnum"` {
    idiom_is_not_splitnum(buf.read_string::<Utf8Decoder>(None)?)
}
subst "values.iter().any(Vec::is_empty)" {
    idiom_any_empty(&values)
}
fn_attrs {
#[verifier::loop_isolation(false)]
}
spec {
    ensures
        final(self).socket.dest() == old(self).socket.dest(),
        final(self).payload == old(self).payload, final(self).retry_count == old(self).retry_count,
        // C09: the handshake request is always attempted first
        final(self).socket.attempts().len() > old(self).socket.attempts().len()
            && final(self).socket.attempts()[old(self).socket.attempts().len() as int] == handshake_request(),
        // (the single-packet mode of the JC2M wrapper is covered for panic-freedom and termination only)
        forall|text: Seq<char>, pks: Seq<Pk>| !old(self).single_packets && #[trigger] gs3_script(old(self).socket.script(), text, pks) ==>
            (r is Err ==> is_transport_err(r->Err_0.kind))
            // C09: after the handshake exactly one more datagram is sent: the data request carrying the server's challenge
            && (r is Ok ==> final(self).socket.sent() == old(self).socket.sent().push(handshake_request())
                    .push(data_request(if parse_i32(text)->Some_0 == 0 { None::<i32> } else { Some(parse_i32(text)->Some_0) }, old(self).payload)))
            // C08: slot i of the table holds the data of the packet with id i, wherever in the arrival order that packet came
            && (r is Ok ==> r->Ok_0@.len() == len_after(pks, pks.len() as int)
                    && forall|i: int| 0 <= i < r->Ok_0@.len() ==> (#[trigger] r->Ok_0@[i])@ == slot_after(pks, pks.len() as int, i)),
}
body_start {
    broadcast use group_cstr, group_wire;
    let ghost mut n: int = 0;
    proof { reveal_strlit("splitnum"); assert(no_nul("splitnum"@)); }
}
before "while values.len() <= packet_id {" {
    proof { assert(id & 0x7f < 128) by (bit_vector); }
}
after "self.send_data_request(challenge)?;" {
    proof {
        assert forall|text: Seq<char>, pks: Seq<Pk>| !old(self).single_packets && #[trigger] gs3_script(old(self).socket.script(), text, pks) implies
            self.socket.script() == old(self).socket.script().skip(1)
            && self.socket.sent() == old(self).socket.sent().push(handshake_request())
                    .push(data_request(if parse_i32(text)->Some_0 == 0 { None::<i32> } else { Some(parse_i32(text)->Some_0) }, old(self).payload)) by {
            assert(old(self).socket.script().drop_first() =~= old(self).socket.script().skip(1));
        }
    }
}
loop 1 {
    invariant
        n >= 0,
        self.socket.dest() == old(self).socket.dest(), self.payload == old(self).payload, self.retry_count == old(self).retry_count,
        self.single_packets == old(self).single_packets,
        self.socket.attempts().len() > old(self).socket.attempts().len()
            && self.socket.attempts()[old(self).socket.attempts().len() as int] == handshake_request(),
        forall|text: Seq<char>, pks: Seq<Pk>| !old(self).single_packets && #[trigger] gs3_script(old(self).socket.script(), text, pks) ==>
            n <= pks.len()
            && self.socket.script() == old(self).socket.script().skip(1 + n)
            && self.socket.sent() == old(self).socket.sent().push(handshake_request())
                    .push(data_request(if parse_i32(text)->Some_0 == 0 { None::<i32> } else { Some(parse_i32(text)->Some_0) }, old(self).payload))
            && values@.len() == len_after(pks, n)
            && (forall|i: int| 0 <= i < values@.len() ==> (#[trigger] values@[i])@ == slot_after(pks, n, i))
            && (!reached_expected_packets_size ==> n < pks.len())
            && (reached_expected_packets_size ==> n == pks.len()),
    decreases self.socket.script().len() + (if reached_expected_packets_size { 0int } else { 1int }),
}
before "let received_data = self.receive(None, 0)?;" {
    proof {
        assert forall|text: Seq<char>, pks: Seq<Pk>| !old(self).single_packets && #[trigger] gs3_script(old(self).socket.script(), text, pks) implies
            self.socket.script().len() > 0 && pk_valid(pks[n])
            && self.socket.script()[0] == gs3_reply(0u8, split_body(pks[n].id, pks[n].unknown, pks[n].data)) by {
            assert(old(self).socket.script().skip(1 + n)[0] == old(self).socket.script()[1 + n]);
        }
    }
    let ghost values0 = values@;
}
loop 2 {
    invariant
        packet_id < 128,
        values@.len() >= values0.len(),
        forall|i: int| 0 <= i < values0.len() ==> #[trigger] values@[i] == values0[i],
        forall|i: int| values0.len() <= i < values@.len() ==> (#[trigger] values@[i])@ == Seq::<u8>::empty(),
        values@.len() <= (if packet_id as int + 1 > values0.len() { packet_id as int + 1 } else { values0.len() as int }),
    decreases 129 - values@.len(),
}
before "if values.iter().any(Vec::is_empty) {" {
    proof {
        assert forall|text: Seq<char>, pks: Seq<Pk>| !old(self).single_packets && #[trigger] gs3_script(old(self).socket.script(), text, pks) implies
            !(exists|j: int| 0 <= j < values@.len() && (#[trigger] values@[j])@.len() == 0) by {
            lemma_len_bound(pks, pks.len() as int, pk_index(pks.last()) + 1);
            assert forall|i: int| 0 <= i < values@.len() implies (#[trigger] values@[i])@.len() > 0 by {
                assert(has_id(pks, i));
                let j = choose|j: int| 0 <= j < pks.len() && pk_index(#[trigger] pks[j]) == i;
                lemma_slot_filled(pks, pks.len() as int, i, j);
            }
        }
    }
}
after "values[packet_id] = buf.remaining_bytes().to_vec();" {
    proof {
        assert(id & 0x7f < 128) by (bit_vector);
        assert forall|text: Seq<char>, pks: Seq<Pk>| !old(self).single_packets && #[trigger] gs3_script(old(self).socket.script(), text, pks) implies
            self.socket.script() == old(self).socket.script().skip(1 + n + 1)
            && values@.len() == len_after(pks, n + 1)
            && (forall|i: int| 0 <= i < values@.len() ==> (#[trigger] values@[i])@ == slot_after(pks, n + 1, i))
            && (!reached_expected_packets_size ==> n + 1 < pks.len())
            && (reached_expected_packets_size ==> n + 1 == pks.len()) by {
            assert(old(self).socket.script().skip(1 + n).drop_first() =~= old(self).socket.script().skip(1 + n + 1));
            assert(id == pks[n].id && packet_id as int == pk_index(pks[n]));
            assert(values@[packet_id as int]@ == pks[n].data);
            assert forall|i: int| 0 <= i < values@.len() implies (#[trigger] values@[i])@ == slot_after(pks, n + 1, i) by {
                if i != packet_id as int && i >= values0.len() { lemma_slot_beyond(pks, n, i); }
            }
            if n < pks.len() - 1 { assert(!pk_last(pks[n])); } else {
                assert(pks[n] == pks.last());
                lemma_len_bound(pks, n, pk_index(pks.last()));
            }
        }
        n = n + 1;
    }
}
@*/
}

// ---------------- key/value block of a data packet (C04: the raw-variables part) ----------------
pub open spec fn enc_vars(vs: Seq<(Seq<char>, Seq<char>)>, i: int, tail: Seq<u8>) -> Seq<u8>
    decreases vs.len() - i
{
    if i < 0 || i >= vs.len() { tail } else { rn!(cstr(vs[i].0); cstr(vs[i].1); enc_vars(vs, i + 1, tail)) }
}
pub open spec fn vars_valid(vs: Seq<(Seq<char>, Seq<char>)>) -> bool {
    forall|j: int| 0 <= j < vs.len() ==> no_nul(#[trigger] vs[j].0) && vs[j].0.len() > 0 && no_nul(vs[j].1)
}
/// the map obtained by inserting the pairs in order (a later duplicate replaces an earlier one)
pub open spec fn map_of(ins: Seq<(String, String)>) -> Map<String, String>
    decreases ins.len()
{
    if ins.len() == 0 { Map::empty() } else { map_of(ins.drop_last()).insert(ins.last().0, ins.last().1) }
}
pub proof fn lemma_enc_vars_nonempty(vs: Seq<(Seq<char>, Seq<char>)>, i: int, tail: Seq<u8>)
    requires tail.len() > 0
    ensures enc_vars(vs, i, tail).len() > 0
    decreases vs.len() - i
{
    broadcast use group_stream;
    if 0 <= i < vs.len() { lemma_enc_vars_nonempty(vs, i + 1, tail); }
}
pub proof fn lemma_closing_nonempty(tail: Seq<u8>)
    ensures cat(cstr(Seq::<char>::empty()), tail).len() > 0
{
    broadcast use group_stream;
}
/*@ fn file=crates/lib/src/protocols/gamespy/protocols/three/protocol.rs name=data_to_map props=C04,C01,C13
use R1 R2
spec {
    requires packet@.len() <= isize::MAX,
    ensures
        // C04: a block of key/value strings closed by an empty key yields exactly those pairs (later duplicate wins) and the
        // bytes after the closing NUL, untouched
        forall|vs: Seq<(Seq<char>, Seq<char>)>, tail: Seq<u8>| vars_valid(vs) && packet@ == #[trigger] enc_vars(vs, 0, cat(cstr(Seq::<char>::empty()), tail))
            ==> r is Ok && r->Ok_0.1@ == tail && exists|ins: Seq<(String, String)>| ins.len() == vs.len()
                    && (forall|j: int| 0 <= j < vs.len() ==> (#[trigger] ins[j]).0@ == vs[j].0 && ins[j].1@ == vs[j].1)
                    && r->Ok_0.0@ == map_of(ins),
}
body_start {
    broadcast use group_cstr, group_wire, vstd::std_specs::hash::group_hash_axioms, axiom_string_obeys_key_model;
    let ghost mut ins: Seq<(String, String)> = Seq::empty();
}
before "vars.insert(key, value);" {
    let ghost prev = ins;
    proof { ins = ins.push((key, value)); assert(ins.drop_last() =~= prev); assert(ins.last() == (key, value)); }
}
before "let key = buf.read_string::<Utf8Decoder>(None)?;" {
    broadcast use group_cstr, group_wire, vstd::std_specs::hash::group_hash_axioms, axiom_string_obeys_key_model;
    proof {
        assert(no_nul(Seq::<char>::empty()));
        assert forall|vs: Seq<(Seq<char>, Seq<char>)>, tail: Seq<u8>| vars_valid(vs) && packet@ == #[trigger] enc_vars(vs, 0, cat(cstr(Seq::<char>::empty()), tail)) implies
            (ins.len() < vs.len() ==> buf.rest() == cat(cstr(vs[ins.len() as int].0), cat(cstr(vs[ins.len() as int].1), enc_vars(vs, ins.len() as int + 1, cat(cstr(Seq::<char>::empty()), tail)))))
            && (ins.len() == vs.len() ==> buf.rest() == cat(cstr(Seq::<char>::empty()), tail)) by {}
    }
}
before "while buf.remaining_length() != 0 {" {
    proof {
        assert forall|vs: Seq<(Seq<char>, Seq<char>)>, tail: Seq<u8>| vars_valid(vs) && packet@ == #[trigger] enc_vars(vs, 0, cat(cstr(Seq::<char>::empty()), tail)) implies
            enc_vars(vs, ins.len() as int, cat(cstr(Seq::<char>::empty()), tail)).len() > 0 by {
            lemma_closing_nonempty(tail);
            lemma_enc_vars_nonempty(vs, ins.len() as int, cat(cstr(Seq::<char>::empty()), tail));
        }
    }
}
after "vars.insert(key, value);" {
    proof {
        assert forall|vs: Seq<(Seq<char>, Seq<char>)>, tail: Seq<u8>| vars_valid(vs) && packet@ == #[trigger] enc_vars(vs, 0, cat(cstr(Seq::<char>::empty()), tail)) implies
            enc_vars(vs, ins.len() as int, cat(cstr(Seq::<char>::empty()), tail)).len() > 0 by {
            lemma_closing_nonempty(tail);
            lemma_enc_vars_nonempty(vs, ins.len() as int, cat(cstr(Seq::<char>::empty()), tail));
        }
    }
}
before "break;" {
    proof {
        assert forall|vs: Seq<(Seq<char>, Seq<char>)>, tail: Seq<u8>| vars_valid(vs) && packet@ == #[trigger] enc_vars(vs, 0, cat(cstr(Seq::<char>::empty()), tail)) implies
            ins.len() == vs.len() && buf.rest() == tail by {
            if ins.len() < vs.len() { assert(vs[ins.len() as int].0.len() > 0); }
        }
    }
}
loop 1 {
    invariant_except_break
        forall|vs: Seq<(Seq<char>, Seq<char>)>, tail: Seq<u8>| vars_valid(vs) && packet@ == #[trigger] enc_vars(vs, 0, cat(cstr(Seq::<char>::empty()), tail))
            ==> buf.rest() == enc_vars(vs, ins.len() as int, cat(cstr(Seq::<char>::empty()), tail)) && buf.rest().len() > 0,
    invariant
        buf.wf(), buf.bytes() == packet@, vars@ == map_of(ins),
        forall|vs: Seq<(Seq<char>, Seq<char>)>, tail: Seq<u8>| vars_valid(vs) && packet@ == #[trigger] enc_vars(vs, 0, cat(cstr(Seq::<char>::empty()), tail))
            ==> ins.len() <= vs.len() && forall|j: int| 0 <= j < ins.len() ==> (#[trigger] ins[j]).0@ == vs[j].0 && ins[j].1@ == vs[j].1,
    ensures
        forall|vs: Seq<(Seq<char>, Seq<char>)>, tail: Seq<u8>| vars_valid(vs) && packet@ == #[trigger] enc_vars(vs, 0, cat(cstr(Seq::<char>::empty()), tail))
            ==> ins.len() == vs.len() && buf.rest() == tail,
    decreases buf.rest().len(),
}
@*/

//@ body-end
} // verus!
fn main() {}
