//@ unit U-VARINT props=C17,C01,C13,C03
// Minecraft VarInt / string codec (crates/lib/src/games/minecraft/types.rs)
#![allow(unused_imports, dead_code, unused_variables, unused_mut)]
use vstd::prelude::*;
use vstd::std_specs::iter::IteratorSpec;
use std::marker::PhantomData;
use std::convert::TryInto;
use std::collections::HashMap;

verus! {
/*@ import unit=U-BUF @*/
/*@ include path=std_model2.rs @*/
/*@ include path=net_model.rs @*/
//@ body-begin

// ---- reference model of the VarInt wire format (wiki.vg "VarInt and VarLong") ----
// value |= (byte & 0x7F) << (7 * position); stop after the first byte without the continuation bit;
// at most 5 bytes; the 5th byte may only use its 4 low bits.
pub open spec fn vi_val(s: Seq<u8>, n: nat) -> i32
    decreases n
{
    if n == 0 { 0i32 } else { vi_val(s, (n - 1) as nat) | (((s[n - 1] & 0x7fu8) as i32) << ((7 * (n - 1)) as i32)) }
}
/// number of bytes a decoder looks at, scanning from index i
pub open spec fn vi_len_from(s: Seq<u8>, i: nat) -> nat
    decreases 5 - i
{
    if i >= 4 || i >= s.len() || s[i as int] & 0x80u8 == 0 { i + 1 } else { vi_len_from(s, i + 1) }
}
pub open spec fn vi_len(s: Seq<u8>) -> nat { vi_len_from(s, 0) }
pub open spec fn vi_ok(s: Seq<u8>) -> bool {
    s.len() >= vi_len(s) && !(vi_len(s) == 5 && s[4] & 0xf0u8 != 0)
}

/*@ fn file=crates/lib/src/games/minecraft/types.rs name=get_varint
fn_attrs {
#[verifier::loop_isolation(false)]
}
after "let mask: u8" {
    proof { assert(!0x80u8 == 0x7fu8) by (bit_vector); }
}
spec {
    requires old(buffer).wf(),
    ensures
        final(buffer).wf(),
        final(buffer).bytes() == old(buffer).bytes(),
        old(buffer).pos() <= final(buffer).pos() <= old(buffer).pos() + 5,
        r is Ok <==> vi_ok(old(buffer).rest()),
        r is Ok ==> final(buffer).pos() == old(buffer).pos() + vi_len(old(buffer).rest())
                 && r->Ok_0 == vi_val(old(buffer).rest(), vi_len(old(buffer).rest())),
}
body_start {
    let ghost rest0 = buffer.rest();
    let ghost pos0 = buffer.pos();
    let ghost bytes0 = buffer.bytes();
    proof { buffer.lemma_rest(); reveal(head_of); reveal(tail_of); }
}
after "let current_byte" {
    proof { buffer.lemma_rest(); assert(current_byte == rest0[i as int]); }
}
loop 1 {
    invariant_except_break
        buffer.pos() == pos0 + i,
        buffer.rest() == bytes0.subrange(pos0 + i, bytes0.len() as int),
        rest0.len() >= i,
        forall|k: int| 0 <= k < i ==> rest0[k] & 0x80u8 != 0,
        i < 5 ==> vi_len_from(rest0, i as nat) == vi_len(rest0),
        i == 5 ==> vi_len(rest0) == 5 && rest0[4] & 0xf0u8 == 0,
        result == vi_val(rest0, i as nat),
    invariant
        buffer.wf(), buffer.bytes() == bytes0, rest0 == bytes0.subrange(pos0, bytes0.len() as int),
        0 <= pos0 <= bytes0.len(),
        msb == 0x80u8, mask == 0x7fu8,
    ensures
        buffer.pos() == pos0 + vi_len(rest0),
        rest0.len() >= vi_len(rest0),
        !(vi_len(rest0) == 5 && rest0[4] & 0xf0u8 != 0),
        result == vi_val(rest0, vi_len(rest0)),
}
@*/

/*@ fn file=crates/lib/src/games/minecraft/types.rs name=as_varint
use R16
spec {
    ensures 1 <= r@.len() <= 5,
}
loop 1 {
    invariant_except_break bytes@.len() == verif_it1.index@, verif_it1.index@ <= 5,
    ensures 1 <= bytes@.len() <= 5,
}
@*/

/// reference model of a Minecraft string: VarInt byte length n >= 0, then n bytes of UTF-8
pub open spec fn mcs_len(s: Seq<u8>) -> int { vi_val(s, vi_len(s)) as int }
pub open spec fn mcs_ok(s: Seq<u8>) -> bool {
    vi_ok(s) && 0 <= mcs_len(s) && vi_len(s) + mcs_len(s) <= s.len()
    && utf8_valid(s.subrange(vi_len(s) as int, vi_len(s) + mcs_len(s)))
}
/*@ fn file=crates/lib/src/games/minecraft/types.rs name=get_string
use R16 R18 R17:buffer.rest().len()
fn_attrs {
#[verifier::loop_isolation(false)]
}
spec {
    requires old(buffer).wf(),
    ensures
        final(buffer).wf(),
        final(buffer).bytes() == old(buffer).bytes(),
        old(buffer).pos() <= final(buffer).pos(),
        r is Ok <==> mcs_ok(old(buffer).rest()),
        r is Ok ==> final(buffer).pos() == old(buffer).pos() + vi_len(old(buffer).rest()) + mcs_len(old(buffer).rest())
                 && r->Ok_0@ == utf8_text(old(buffer).rest().subrange(vi_len(old(buffer).rest()) as int,
                                                                      vi_len(old(buffer).rest()) + mcs_len(old(buffer).rest()))),
}
body_start {
    let ghost rest0 = buffer.rest();
    let ghost pos0 = buffer.pos();
    let ghost bytes0 = buffer.bytes();
    proof { buffer.lemma_rest(); reveal(head_of); reveal(tail_of); }
}
after "let length" {
    proof {
        let n = vi_val(rest0, vi_len(rest0));
        assert(n >= 0 ==> length == n);
        assert(n < 0i32 ==> #[verifier::truncate] (n as usize) > 0x7fff_ffff_ffff_ffffusize) by (bit_vector);
    }
}
before "String::from_utf8(text)" {
    proof {
        let vl = vi_len(rest0) as int;
        assert(text@ =~= rest0.subrange(vl, vl + mcs_len(rest0)));
    }
}
before "let mut text" {
    proof { broadcast use group_alloc; }
}
after "let mut text" {
    let ghost p1 = buffer.pos();
    proof { buffer.lemma_rest(); }
}
loop 1 {
    invariant
        buffer.wf(), buffer.bytes() == bytes0,
        buffer.pos() == p1 + verif_it1.index@,
        p1 + length <= bytes0.len(),
        text@ == bytes0.subrange(p1, p1 + verif_it1.index@),
        buffer.rest() == bytes0.subrange(p1 + verif_it1.index@, bytes0.len() as int),
}
@*/

// ---------------- Java client framing (crates/lib/src/games/minecraft/protocol/java.rs) ----------------
/*@ item file=crates/lib/src/games/minecraft/types.rs kind=struct name=RequestSettings @*/
/*@ item file=crates/lib/src/games/minecraft/protocol/java.rs kind=struct name=Java @*/
impl Java {
// the reply stream is one read of everything the server sent (TcpSocket model); the leading VarInt (declared packet length) is
// skipped, never used as a size: what is returned is the rest of the bytes actually received (C13: nothing is reserved from a
// number the server chose)
/*@ fn file=crates/lib/src/games/minecraft/protocol/java.rs impl="impl Java" name=receive props=C13,C01,C03,C17
use R17 R18
spec {
    ensures
        final(self).socket.sent() == old(self).socket.sent(), final(self).socket.attempts() == old(self).socket.attempts(),
        final(self).retry_count == old(self).retry_count,
        r is Ok ==> old(self).socket.script().len() > 0 && vi_ok(old(self).socket.script()[0])
                 && r->Ok_0@ == old(self).socket.script()[0].subrange(vi_len(old(self).socket.script()[0]) as int, old(self).socket.script()[0].len() as int),
}
body_start {
    broadcast use group_alloc;
}
tail {
    proof { buffer.lemma_rest(); }
}
@*/
}
//@ body-end
} // verus!
fn main() {}
