//@ unit U-SET props=C18,C01
// Timeout settings and their application to sockets (crates/lib/src/protocols/types.rs, crates/lib/src/socket.rs)
#![allow(unused_imports, dead_code, unused_variables, unused_mut, unused_parens)]
use vstd::prelude::*;

verus! {
/*@ item file=crates/lib/src/errors/kind.rs kind=enum name=GDErrorKind
attrs {
#[derive(PartialEq, Eq, Structural)]
}
@*/
use GDErrorKind::*;
/*@ include path=prelude_err.rs @*/
//@ body-begin

// ---- std::time::Duration and the std socket timeout setters (ASSUMED, from the std documentation) ----
#[verifier::external_body]
#[derive(Clone, Copy)]
pub struct Duration { _p: core::marker::PhantomData<()> }
impl Duration {
    pub uninterp spec fn zero(&self) -> bool;
    #[verifier::external_body]
    pub const fn from_secs(secs: u64) -> (r: Duration) ensures r.zero() == (secs == 0) { unimplemented!() }
    #[verifier::external_body]
    pub const fn is_zero(&self) -> (r: bool) ensures r == self.zero() { unimplemented!() }
}
#[verifier::external_body]
pub struct IoError { _p: core::marker::PhantomData<()> }
pub mod net {
    use super::*;
    // "An Err is returned if the zero Duration is passed to this method." (std::net::UdpSocket::set_read_timeout)
    #[verifier::external_body]
    pub struct UdpSocket { _p: core::marker::PhantomData<()> }
    impl UdpSocket {
        #[verifier::external_body]
        pub fn set_read_timeout(&self, dur: Option<Duration>) -> (r: Result<(), IoError>)
            ensures dur is Some && dur->Some_0.zero() ==> r is Err { unimplemented!() }
        #[verifier::external_body]
        pub fn set_write_timeout(&self, dur: Option<Duration>) -> (r: Result<(), IoError>)
            ensures dur is Some && dur->Some_0.zero() ==> r is Err { unimplemented!() }
    }
    #[verifier::external_body]
    pub struct TcpStream { _p: core::marker::PhantomData<()> }
    impl TcpStream {
        #[verifier::external_body]
        pub fn set_read_timeout(&self, dur: Option<Duration>) -> (r: Result<(), IoError>)
            ensures dur is Some && dur->Some_0.zero() ==> r is Err { unimplemented!() }
        #[verifier::external_body]
        pub fn set_write_timeout(&self, dur: Option<Duration>) -> (r: Result<(), IoError>)
            ensures dur is Some && dur->Some_0.zero() ==> r is Err { unimplemented!() }
    }
}
#[verifier::external_body]
pub struct SocketAddr { _p: core::marker::PhantomData<()> }

/*@ item file=crates/lib/src/protocols/types.rs kind=struct name=TimeoutSettings @*/
pub open spec fn nonzero(d: Option<Duration>) -> bool { d is None || !d->Some_0.zero() }
impl TimeoutSettings {
    /// C18 invariant of every validated settings value: no zero duration
    pub open spec fn valid(&self) -> bool { nonzero(self.read) && nonzero(self.write) && nonzero(self.connect) }

/*@ fn file=crates/lib/src/protocols/types.rs impl="impl TimeoutSettings" name=new
spec {
    ensures
        // zero read, write or connect duration <=> rejected with InvalidInput
        r is Err <==> !(nonzero(read) && nonzero(write) && nonzero(connect)),
        r is Err ==> r->Err_0.kind == InvalidInput,
        r is Ok ==> r->Ok_0.valid() && r->Ok_0.read == read && r->Ok_0.write == write && r->Ok_0.connect == connect && r->Ok_0.retries == retries,
}
@*/
/*@ fn file=crates/lib/src/protocols/types.rs impl="impl TimeoutSettings" name=get_read
spec { ensures r == self.read, }
@*/
/*@ fn file=crates/lib/src/protocols/types.rs impl="impl TimeoutSettings" name=get_write
spec { ensures r == self.write, }
@*/
/*@ fn file=crates/lib/src/protocols/types.rs impl="impl TimeoutSettings" name=get_connect
spec { ensures r == self.connect, }
@*/
/*@ fn file=crates/lib/src/protocols/types.rs impl="impl TimeoutSettings" name=get_retries
spec { ensures r == self.retries, }
@*/
/*@ fn file=crates/lib/src/protocols/types.rs impl="impl TimeoutSettings" name=const_default
spec {
    ensures r.valid(), r.retries == 0, r.read is Some && r.write is Some && r.connect is Some,
}
@*/
/*@ fn file=crates/lib/src/protocols/types.rs impl="impl TimeoutSettings" name=get_retries_or_default
spec {
    ensures timeout_settings is Some ==> r == timeout_settings->Some_0.retries, timeout_settings is None ==> r == 0,
}
@*/
/*@ fn file=crates/lib/src/protocols/types.rs impl="impl TimeoutSettings" name=get_read_and_write_or_defaults
spec {
    ensures
        timeout_settings is Some ==> r.0 == timeout_settings->Some_0.read && r.1 == timeout_settings->Some_0.write,
        timeout_settings is None ==> nonzero(r.0) && nonzero(r.1) && r.0 is Some && r.1 is Some,
}
@*/
/*@ fn file=crates/lib/src/protocols/types.rs impl="impl TimeoutSettings" name=get_connect_or_default
spec {
    ensures
        timeout_settings is Some ==> r == timeout_settings->Some_0.connect,
        timeout_settings is None ==> nonzero(r) && r is Some,
}
@*/
}

// ---- applying the timeouts: never panics, whatever the settings value (validated or not) ----
/*@ item file=crates/lib/src/socket.rs kind=struct name=UdpSocketImpl @*/
/*@ item file=crates/lib/src/socket.rs kind=struct name=TcpSocketImpl @*/
impl UdpSocketImpl {
/*@ fn file=crates/lib/src/socket.rs impl="impl Socket for UdpSocketImpl" name=apply_timeout
spec {
    ensures
        r is Err ==> r->Err_0.kind == InvalidInput,
        // an unvalidated zero duration is reported as an error
        timeout_settings is Some && !(nonzero(timeout_settings->Some_0.read) && nonzero(timeout_settings->Some_0.write)) ==> r is Err,
}
@*/
}
impl TcpSocketImpl {
/*@ fn file=crates/lib/src/socket.rs impl="impl Socket for TcpSocketImpl" name=apply_timeout
spec {
    ensures
        r is Err ==> r->Err_0.kind == InvalidInput,
        timeout_settings is Some && !(nonzero(timeout_settings->Some_0.read) && nonzero(timeout_settings->Some_0.write)) ==> r is Err,
}
@*/
}
//@ body-end
} // verus!
fn main() {}
