//@ unit U-BUF props=C17,C01
// Packet reader (crates/lib/src/buffer.rs).  Every function body below is pulled verbatim from /repo
// on each run; only the contracts (requires/ensures/invariants/proof blocks) are written here.
#![allow(unused_imports, dead_code, unused_variables, unused_mut)]
use vstd::prelude::*;
use vstd::std_specs::iter::IteratorSpec;
use std::marker::PhantomData;
use std::convert::TryInto;
use std::collections::HashMap;

verus! {

//@ body-begin
/*@ item file=crates/lib/src/errors/kind.rs kind=enum name=GDErrorKind
attrs {
#[derive(PartialEq, Eq, Structural)]
}
@*/
use GDErrorKind::*;

/*@ include path=prelude.rs @*/
/*@ include path=std_assumed.rs @*/
/*@ include path=alloc_model.rs @*/
/*@ include path=text_model.rs @*/
/*@ include path=ue2_model.rs @*/

/*@ item file=crates/lib/src/buffer.rs kind=struct name=Buffer @*/

impl<'a, B: ByteOrder> Buffer<'a, B> {
    /// abstract view: the packet and the reader position
    pub closed spec fn bytes(&self) -> Seq<u8> { self.data@ }
    pub closed spec fn pos(&self) -> int { self.cursor as int }
    /// C17 invariant: the position always stays within the packet
    pub closed spec fn wf(&self) -> bool { 0 <= self.cursor <= self.data@.len() <= isize::MAX }
    /// the unread bytes.  Opaque: clients reason about it only through the contracts below (keeps vstd's subrange
    /// axioms out of the parser proofs); `lemma_rest` gives the definition where it is needed.
    #[verifier::opaque]
    pub closed spec fn rest(&self) -> Seq<u8> { self.data@.subrange(self.cursor as int, self.data@.len() as int) }
    pub proof fn lemma_rest(&self)
        requires self.wf()
        ensures self.rest() == self.bytes().subrange(self.pos(), self.bytes().len() as int), self.rest().len() == self.bytes().len() - self.pos()
    { reveal(Buffer::rest); }
}

pub open spec fn delim_of<D: StringDecoder>(until: Option<D::Delimiter>) -> D::Delimiter {
    if until is Some { until->Some_0 } else { D::DELIMITER }
}
/*@ present file=crates/lib/src/buffer.rs text="impl<'a, B: ByteOrder> Buffer<'a, B> {" @*/
impl<'a, B: ByteOrder> Buffer<'a, B> {
/*@ fn file=crates/lib/src/buffer.rs impl="impl<'a, B: ByteOrder> Buffer<'a, B>" name=new
spec {
    ensures r.wf(), r.bytes() == data@, r.pos() == 0, r.rest() == data@,
}
body_start {
    proof { reveal(Buffer::rest); axiom_slice_len(data); assert(data@.subrange(0, data@.len() as int) =~= data@); }     // Rust slice guarantee (trusted base)
}
@*/
/*@ fn file=crates/lib/src/buffer.rs impl="impl<'a, B: ByteOrder> Buffer<'a, B>" name=current_position
spec {
    ensures r == self.pos(),
}
@*/
/*@ fn file=crates/lib/src/buffer.rs impl="impl<'a, B: ByteOrder> Buffer<'a, B>" name=remaining_length
spec {
    requires self.wf(),
    ensures r == self.bytes().len() - self.pos(), r == self.rest().len(),
}
body_start {
    proof { reveal(Buffer::rest); }
}
@*/
/*@ fn file=crates/lib/src/buffer.rs impl="impl<'a, B: ByteOrder> Buffer<'a, B>" name=data_length
spec {
    ensures r == self.bytes().len(),
}
@*/
/*@ fn file=crates/lib/src/buffer.rs impl="impl<'a, B: ByteOrder> Buffer<'a, B>" name=remaining_bytes
spec {
    requires self.wf(),
    ensures r@ == self.rest(),
}
body_start {
    proof { reveal(Buffer::rest); }
}
@*/
/*@ fn file=crates/lib/src/buffer.rs impl="impl<'a, B: ByteOrder> Buffer<'a, B>" name=move_cursor
spec {
    requires old(self).wf(),
    ensures
        final(self).wf(),
        final(self).bytes() == old(self).bytes(),
        r is Ok <==> 0 <= old(self).pos() + offset <= old(self).bytes().len(),
        r is Ok ==> final(self).pos() == old(self).pos() + offset,
        r is Ok && offset >= 0 ==> final(self).rest() == tail_of(old(self).rest(), offset as int),
        r is Ok ==> final(self).rest().len() == old(self).rest().len() - offset,
        offset >= 0 ==> (r is Ok <==> offset <= old(self).rest().len()),
        r is Err ==> final(self).pos() == old(self).pos() && final(self).rest() == old(self).rest() && r->Err_0.kind == PacketBad,
}
body_start {
    proof { reveal(tail_of); reveal(Buffer::rest); }
}
@*/
/*@ fn file=crates/lib/src/buffer.rs impl="impl<'a, B: ByteOrder> Buffer<'a, B>" name=read
use R1
spec {
    requires old(self).wf(),
    ensures
        final(self).wf(),
        final(self).bytes() == old(self).bytes(),
        r is Ok <==> old(self).rest().len() >= T::width(),
        r is Ok ==> final(self).pos() == old(self).pos() + T::width()
                 && final(self).rest() == tail_of(old(self).rest(), T::width() as int)
                 && final(self).rest().len() == old(self).rest().len() - T::width()
                 && r->Ok_0 == T::decode(head_of(old(self).rest(), T::width() as int)),
        r is Err ==> final(self).pos() == old(self).pos() && final(self).rest() == old(self).rest() && r->Err_0.kind == PacketUnderflow,
}
body_start {
    proof { T::width_is_size(); reveal(head_of); reveal(tail_of); reveal(Buffer::rest); }
}
after "let bytes" {
    proof {
        assert(bytes@ == old(self).rest().subrange(0, T::width() as int));
    }
}
@*/
/*@ fn file=crates/lib/src/buffer.rs impl="impl<'a, B: ByteOrder> Buffer<'a, B>" name=read_string
use R1
spec {
    requires old(self).wf(),
    ensures
        final(self).wf(),
        final(self).bytes() == old(self).bytes(),
        old(self).pos() <= final(self).pos(),
        r is Err ==> final(self).pos() == old(self).pos(),
        r is Ok ==> final(self).pos() == old(self).pos() + D::consumed(old(self).rest(), delim_of::<D>(until))
                 && r->Ok_0@ == D::text(old(self).rest(), delim_of::<D>(until)),
        r is Ok <==> D::decodes(old(self).rest(), delim_of::<D>(until)),
        r is Ok ==> final(self).rest() == tail_of(old(self).rest(), D::consumed(old(self).rest(), delim_of::<D>(until)) as int)
                 && final(self).rest().len() <= old(self).rest().len()
                 && (old(self).rest().len() > 0 ==> final(self).rest().len() < old(self).rest().len()),
        r is Err ==> final(self).rest() == old(self).rest(),
        // NUL/byte-delimited UTF-8 strings, stated over plain (non trait-dispatched) functions
        D::is_utf8() ==> (r is Ok <==> utf8_ok(old(self).rest(), D::d0(delim_of::<D>(until))))
            && (r is Ok ==> r->Ok_0@ == utf8_txt(old(self).rest(), D::d0(delim_of::<D>(until)))
                         && final(self).rest() == tail_of(old(self).rest(), utf8_consumed(old(self).rest(), D::d0(delim_of::<D>(until))) as int)),
        D::is_ue2() ==> (r is Ok <==> ue2_ok(old(self).rest(), D::d0(delim_of::<D>(until))))
            && (r is Ok ==> r->Ok_0@ == ue2_txt(old(self).rest(), D::d0(delim_of::<D>(until)))
                         && final(self).rest() == tail_of(old(self).rest(), ue2_consumed(old(self).rest(), D::d0(delim_of::<D>(until))) as int)),
        D::is_lp() ==> (r is Ok <==> lp_ok(old(self).rest(), D::d0(delim_of::<D>(until))))
            && (r is Ok ==> r->Ok_0@ == lp_txt(old(self).rest(), D::d0(delim_of::<D>(until)))
                         && final(self).rest() == tail_of(old(self).rest(), lp_consumed(old(self).rest(), D::d0(delim_of::<D>(until))) as int)),
}
body_start {
    proof {
        assert(delim_of::<D>(until) == until.unwrap_or(D::DELIMITER));
        reveal(tail_of); reveal(Buffer::rest);
        D::lemma_is_lp(old(self).rest(), delim_of::<D>(until));
        D::lemma_is_ue2(old(self).rest(), delim_of::<D>(until));
        D::lemma_is_utf8(old(self).rest(), delim_of::<D>(until));
    }
}
@*/
}

/*@ present file=crates/lib/src/buffer.rs text="pub trait SwitchEndian { type Output: ByteOrder; }" @*/
pub trait SwitchEndian {
    type Output: ByteOrder;
}
impl SwitchEndian for LittleEndian { type Output = BigEndian; }
impl SwitchEndian for BigEndian { type Output = LittleEndian; }
/*@ present file=crates/lib/src/buffer.rs text="impl SwitchEndian for LittleEndian { type Output = BigEndian; }" @*/
/*@ present file=crates/lib/src/buffer.rs text="impl SwitchEndian for BigEndian { type Output = LittleEndian; }" @*/

impl<'a, B: SwitchEndian + ByteOrder> Buffer<'a, B> {
/*@ fn file=crates/lib/src/buffer.rs impl="impl<'a, B: SwitchEndian + ByteOrder> Buffer<'a, B>" name=switch_endian_chunk
spec {
    requires old(self).wf(), size <= isize::MAX,   // callers pass a u16/u8 length field
    ensures
        final(self).wf(),
        final(self).bytes() == old(self).bytes(),
        r is Ok <==> old(self).pos() + size <= old(self).bytes().len(),
        r is Ok ==> final(self).pos() == old(self).pos() + size
                 && r->Ok_0.wf() && r->Ok_0.pos() == 0
                 && r->Ok_0.bytes() == head_of(old(self).rest(), size as int) && r->Ok_0.rest() == head_of(old(self).rest(), size as int)
                 && final(self).rest() == tail_of(old(self).rest(), size as int),
        r is Err ==> final(self).pos() == old(self).pos() && final(self).rest() == old(self).rest(),
}
body_start {
    proof { reveal(head_of); reveal(tail_of); reveal(Buffer::rest); }
}
@*/
}

// ---- fixed-width reads ----
/*@ present file=crates/lib/src/buffer.rs text="pub trait BufferRead<B: ByteOrder>: Sized { fn read_from_buffer(data: &[u8]) -> GDResult<Self>; }" @*/
pub trait BufferRead<B: ByteOrder>: Sized {
    spec fn width() -> nat;
    spec fn decode(s: Seq<u8>) -> Self;
    proof fn width_is_size()
        ensures Self::width() == vstd::layout::size_of::<Self>(), 1 <= Self::width() <= 8;
    fn read_from_buffer(data: &[u8]) -> (r: GDResult<Self>)
        requires data@.len() == Self::width()
        ensures r is Ok, r->Ok_0 == Self::decode(data@);
}

/*@ macro file=crates/lib/src/buffer.rs name=impl_buffer_read_byte args="u8, |&b| b" fn=read_from_buffer
use R3:u8:u8
impl_inject {
    open spec fn width() -> nat { 1 }
    open spec fn decode(s: Seq<u8>) -> u8 { s[0] }
    proof fn width_is_size() { broadcast use vstd::layout::layout_of_primitives; }
}
@*/
/*@ macro file=crates/lib/src/buffer.rs name=impl_buffer_read_byte args="i8, |&b| b as i8" fn=read_from_buffer
use R3:u8:i8
impl_inject {
    open spec fn width() -> nat { 1 }
    open spec fn decode(s: Seq<u8>) -> i8 { s[0] as i8 }
    proof fn width_is_size() { broadcast use vstd::layout::layout_of_primitives; }
}
@*/
/*@ macro file=crates/lib/src/buffer.rs name=impl_buffer_read args="u16, read_u16" fn=read_from_buffer
use R8:identity_try_into
body_start {
    proof { assert(data@.subrange(0, data@.len() as int) =~= data@); }
}
impl_inject {
    open spec fn width() -> nat { 2 }
    open spec fn decode(s: Seq<u8>) -> u16 { ord_nat(B::is_le(), s) as u16 }
    proof fn width_is_size() { broadcast use vstd::layout::layout_of_primitives; }
}
@*/
/*@ macro file=crates/lib/src/buffer.rs name=impl_buffer_read args="i16, read_i16" fn=read_from_buffer
use R8:identity_try_into
body_start {
    proof { assert(data@.subrange(0, data@.len() as int) =~= data@); }
}
impl_inject {
    open spec fn width() -> nat { 2 }
    open spec fn decode(s: Seq<u8>) -> i16 { as_signed(ord_nat(B::is_le(), s), 16) as i16 }
    proof fn width_is_size() { broadcast use vstd::layout::layout_of_primitives; }
}
@*/
/*@ macro file=crates/lib/src/buffer.rs name=impl_buffer_read args="u32, read_u32" fn=read_from_buffer
use R8:identity_try_into
body_start {
    proof { assert(data@.subrange(0, data@.len() as int) =~= data@); }
}
impl_inject {
    open spec fn width() -> nat { 4 }
    open spec fn decode(s: Seq<u8>) -> u32 { ord_nat(B::is_le(), s) as u32 }
    proof fn width_is_size() { broadcast use vstd::layout::layout_of_primitives; }
}
@*/
/*@ macro file=crates/lib/src/buffer.rs name=impl_buffer_read args="i32, read_i32" fn=read_from_buffer
use R8:identity_try_into
body_start {
    proof { assert(data@.subrange(0, data@.len() as int) =~= data@); }
}
impl_inject {
    open spec fn width() -> nat { 4 }
    open spec fn decode(s: Seq<u8>) -> i32 { as_signed(ord_nat(B::is_le(), s), 32) as i32 }
    proof fn width_is_size() { broadcast use vstd::layout::layout_of_primitives; }
}
@*/
/*@ macro file=crates/lib/src/buffer.rs name=impl_buffer_read args="u64, read_u64" fn=read_from_buffer
use R8:identity_try_into
body_start {
    proof { assert(data@.subrange(0, data@.len() as int) =~= data@); }
}
impl_inject {
    open spec fn width() -> nat { 8 }
    open spec fn decode(s: Seq<u8>) -> u64 { ord_nat(B::is_le(), s) as u64 }
    proof fn width_is_size() { broadcast use vstd::layout::layout_of_primitives; }
}
@*/
/*@ macro file=crates/lib/src/buffer.rs name=impl_buffer_read args="i64, read_i64" fn=read_from_buffer
use R8:identity_try_into
body_start {
    proof { assert(data@.subrange(0, data@.len() as int) =~= data@); }
}
impl_inject {
    open spec fn width() -> nat { 8 }
    open spec fn decode(s: Seq<u8>) -> i64 { as_signed(ord_nat(B::is_le(), s), 64) as i64 }
    proof fn width_is_size() { broadcast use vstd::layout::layout_of_primitives; }
}
@*/
/*@ macro file=crates/lib/src/buffer.rs name=impl_buffer_read args="f32, read_f32" fn=read_from_buffer
use R8:identity_try_into
body_start {
    proof { assert(data@.subrange(0, data@.len() as int) =~= data@); }
}
impl_inject {
    open spec fn width() -> nat { 4 }
    open spec fn decode(s: Seq<u8>) -> f32 { f32_of_bits(ord_nat(B::is_le(), s)) }
    proof fn width_is_size() { axiom_size_of_floats(); }
}
@*/
/*@ macro file=crates/lib/src/buffer.rs name=impl_buffer_read args="f64, read_f64" fn=read_from_buffer
use R8:identity_try_into
body_start {
    proof { assert(data@.subrange(0, data@.len() as int) =~= data@); }
}
impl_inject {
    open spec fn width() -> nat { 8 }
    open spec fn decode(s: Seq<u8>) -> f64 { f64_of_bits(ord_nat(B::is_le(), s)) }
    proof fn width_is_size() { axiom_size_of_floats(); }
}
@*/

// ---- string decoders ----
// The real trait is `type Delimiter: AsRef<[u8]>; const DELIMITER: Self::Delimiter; fn decode_string(..)`.
// The `AsRef<[u8]>` bound is dropped here (it trips Verus' trait-conflict checker); every impl uses a
// concrete array type, so `delimiter.as_ref()` still resolves exactly as in the real code.
/*@ present file=crates/lib/src/buffer.rs text="fn decode_string(data: &[u8], cursor: &mut usize, delimiter: Self::Delimiter) -> GDResult<String>;" @*/
pub trait StringDecoder {
    type Delimiter;
    const DELIMITER: Self::Delimiter;
    /// bytes consumed from `data` (string + delimiter, or everything if unterminated)
    spec fn consumed(data: Seq<u8>, d: Self::Delimiter) -> nat;
    /// decoded text
    spec fn text(data: Seq<u8>, d: Self::Delimiter) -> Seq<char>;
    /// whether decoding succeeds
    spec fn decodes(data: Seq<u8>, d: Self::Delimiter) -> bool;
    /// true for the byte-delimited UTF-8 decoder, whose model is also available as the plain functions utf8_*
    spec fn is_utf8() -> bool;
    spec fn d0(d: Self::Delimiter) -> u8;
    proof fn lemma_is_utf8(data: Seq<u8>, d: Self::Delimiter)
        ensures Self::is_utf8() ==> Self::consumed(data, d) == utf8_consumed(data, Self::d0(d))
                                 && Self::text(data, d) == utf8_txt(data, Self::d0(d))
                                 && Self::decodes(data, d) == utf8_ok(data, Self::d0(d));
    /// true for the length-prefixed UTF-8 decoder (plain model functions lp_*)
    spec fn is_lp() -> bool;
    proof fn lemma_is_lp(data: Seq<u8>, d: Self::Delimiter)
        ensures Self::is_lp() ==> Self::consumed(data, d) == lp_consumed(data, Self::d0(d))
                               && Self::text(data, d) == lp_txt(data, Self::d0(d))
                               && Self::decodes(data, d) == lp_ok(data, Self::d0(d));
    /// true for the Unreal 2 string decoder (plain model functions ue2_* in contracts/ue2_model.rs)
    spec fn is_ue2() -> bool;
    proof fn lemma_is_ue2(data: Seq<u8>, d: Self::Delimiter)
        ensures Self::is_ue2() ==> Self::consumed(data, d) == ue2_consumed(data, Self::d0(d))
                                && Self::text(data, d) == ue2_txt(data, Self::d0(d))
                                && Self::decodes(data, d) == ue2_ok(data, Self::d0(d));
    /// wire form of a terminated string `txt` (encoder side of the reference model) and its side condition
    spec fn wire(txt: Seq<char>, d: Self::Delimiter) -> Seq<u8>;
    spec fn wire_ok(txt: Seq<char>, d: Self::Delimiter) -> bool;
    /// decoding is a left inverse of `wire`, whatever follows
    proof fn lemma_wire(txt: Seq<char>, d: Self::Delimiter, tail: Seq<u8>)
        requires Self::wire_ok(txt, d)
        ensures
            Self::decodes(Self::wire(txt, d) + tail, d),
            Self::consumed(Self::wire(txt, d) + tail, d) == Self::wire(txt, d).len(),
            Self::text(Self::wire(txt, d) + tail, d) == txt;
    fn decode_string(data: &[u8], cursor: &mut usize, delimiter: Self::Delimiter) -> (r: GDResult<String>)
        requires *old(cursor) + data@.len() <= isize::MAX
        ensures
            r is Ok <==> Self::decodes(data@, delimiter),
            r is Ok ==> *final(cursor) == *old(cursor) + Self::consumed(data@, delimiter)
                     && Self::consumed(data@, delimiter) <= data@.len()      // C17: never past the packet
                     && (data@.len() > 0 ==> Self::consumed(data@, delimiter) > 0)   // progress (termination of parse loops)
                     && r->Ok_0@ == Self::text(data@, delimiter),
            r is Err ==> *final(cursor) == *old(cursor);
}

/*@ present file=crates/lib/src/buffer.rs text="pub struct Utf8Decoder;" @*/
pub struct Utf8Decoder;
/// end of the string: index of the first delimiter byte, or the data length if there is none
pub open spec fn str_end(data: Seq<u8>, d: u8) -> int { first_index_of(data, d) }

/// reference model of a byte-delimited UTF-8 string (property C17): consume the string and its delimiter, or the rest
/// of the packet if unterminated
pub open spec fn utf8_consumed(data: Seq<u8>, d0: u8) -> nat {
    if str_end(data, d0) < data.len() { (str_end(data, d0) + 1) as nat } else { data.len() }
}
pub open spec fn utf8_txt(data: Seq<u8>, d0: u8) -> Seq<char> { utf8_text(data.subrange(0, str_end(data, d0))) }
pub open spec fn utf8_ok(data: Seq<u8>, d0: u8) -> bool { utf8_valid(data.subrange(0, str_end(data, d0))) }
/*@ present file=crates/lib/src/buffer.rs text="impl StringDecoder for Utf8Decoder {" @*/
impl StringDecoder for Utf8Decoder {
    open spec fn is_utf8() -> bool { true }
    open spec fn d0(d: [u8; 1]) -> u8 { d@[0] }
    proof fn lemma_is_utf8(data: Seq<u8>, d: [u8; 1]) { }
    open spec fn is_lp() -> bool { false }
    proof fn lemma_is_lp(data: Seq<u8>, d: [u8; 1]) { }
    open spec fn is_ue2() -> bool { false }
    proof fn lemma_is_ue2(data: Seq<u8>, d: [u8; 1]) { }
/*@ item file=crates/lib/src/buffer.rs impl="impl StringDecoder for Utf8Decoder" kind=type name=Delimiter @*/
/*@ item file=crates/lib/src/buffer.rs impl="impl StringDecoder for Utf8Decoder" kind=const name=DELIMITER @*/
    // reference model (property C17): consume the string and its delimiter, or the rest if unterminated
    open spec fn consumed(data: Seq<u8>, d: [u8; 1]) -> nat { utf8_consumed(data, d@[0]) }
    open spec fn text(data: Seq<u8>, d: [u8; 1]) -> Seq<char> { utf8_txt(data, d@[0]) }
    open spec fn decodes(data: Seq<u8>, d: [u8; 1]) -> bool { utf8_ok(data, d@[0]) }
    open spec fn wire(txt: Seq<char>, d: [u8; 1]) -> Seq<u8> { utf8_bytes(txt).push(d@[0]) }
    open spec fn wire_ok(txt: Seq<char>, d: [u8; 1]) -> bool { no_byte(utf8_bytes(txt), d@[0]) }
    proof fn lemma_wire(txt: Seq<char>, d: [u8; 1], tail: Seq<u8>) {
        let a = utf8_bytes(txt);
        let w = a.push(d@[0]);
        assert(w + tail =~= a + (seq![d@[0]] + tail));
        lemma_first_index_of_concat(a, seq![d@[0]] + tail, d@[0]);
        assert((w + tail).subrange(0, a.len() as int) =~= a);
        axiom_utf8_roundtrip(txt);
    }
/*@ fn file=crates/lib/src/buffer.rs impl="impl StringDecoder for Utf8Decoder" name=decode_string
use R8:position_eq
body_start {
    proof { lemma_first_index_of(data@, delimiter@[0]); }
}
@*/
}

/// reading a NUL-terminated string from `cat(cstr(txt), t)` yields txt and leaves t (one instantiation per read; the
/// trigger is a plain spec function applied to an opaque `cat` term)
pub broadcast proof fn lemma_cstr_read(txt: Seq<char>, t: Seq<u8>, z: u8)
    requires no_nul(txt)
    ensures
        #![trigger utf8_consumed(cat(cstr(txt), t), z)]
        #![trigger utf8_ok(cat(cstr(txt), t), z)]
        z == 0u8 ==> utf8_consumed(cat(cstr(txt), t), z) == cstr(txt).len()
                  && utf8_ok(cat(cstr(txt), t), z)
                  && utf8_txt(cat(cstr(txt), t), z) == txt,
{
    if z == 0u8 {
        let d: [u8; 1] = [0u8];
        axiom_utf8_no_nul(txt);
        Utf8Decoder::lemma_wire(txt, d, t);
        lemma_cat_is_add(cstr(txt), t);
    }
}
pub broadcast proof fn lemma_default_delimiter()
    ensures #[trigger] delim_of::<Utf8Decoder>(None::<[u8; 1]>)@[0] == 0u8
{}
pub broadcast group group_cstr { lemma_cstr_read, lemma_default_delimiter, group_stream }
/// a NUL-terminated string is the wire form of the default-delimiter Utf8Decoder
pub broadcast proof fn lemma_cstr_wire(txt: Seq<char>)
    ensures
        #[trigger] cstr(txt) == Utf8Decoder::wire(txt, delim_of::<Utf8Decoder>(None)),
        no_nul(txt) ==> Utf8Decoder::wire_ok(txt, delim_of::<Utf8Decoder>(None)),
{
    if no_nul(txt) { axiom_utf8_no_nul(txt); }
}
/*@ present file=crates/lib/src/buffer.rs text="pub struct Utf8LengthPrefixedDecoder;" @*/
pub struct Utf8LengthPrefixedDecoder;
/// end of a length-prefixed string relative to data[1..]: first delimiter among the (at most n)
/// bytes after the length byte n, else n
pub open spec fn lp_end(data: Seq<u8>, d: u8) -> int {
    let st = skip_take(data, 1, data[0] as int);
    if first_index_of(st, d) < st.len() { first_index_of(st, d) } else { data[0] as int }
}
pub open spec fn lp_consumed(data: Seq<u8>, d0: u8) -> nat { (1 + lp_end(data, d0)) as nat }
pub open spec fn lp_txt(data: Seq<u8>, d0: u8) -> Seq<char> { utf8_text(data.subrange(1, 1 + lp_end(data, d0))) }
pub open spec fn lp_ok(data: Seq<u8>, d0: u8) -> bool {
    data.len() >= 1 && 1 + lp_end(data, d0) <= data.len() && utf8_valid(data.subrange(1, 1 + lp_end(data, d0)))
}
/// wire form of a length-prefixed string
pub open spec fn lpstr(txt: Seq<char>) -> Seq<u8> { seq![utf8_bytes(txt).len() as u8] + utf8_bytes(txt) }
/*@ present file=crates/lib/src/buffer.rs text="impl StringDecoder for Utf8LengthPrefixedDecoder {" @*/
impl StringDecoder for Utf8LengthPrefixedDecoder {
/*@ item file=crates/lib/src/buffer.rs impl="impl StringDecoder for Utf8LengthPrefixedDecoder" kind=type name=Delimiter @*/
/*@ item file=crates/lib/src/buffer.rs impl="impl StringDecoder for Utf8LengthPrefixedDecoder" kind=const name=DELIMITER @*/
    // reference model: first byte n is the length; the string is the n bytes that follow, cut at the
    // first delimiter inside them; fails (PacketUnderflow) if the string would extend past the data.
    open spec fn is_utf8() -> bool { false }
    open spec fn d0(d: [u8; 1]) -> u8 { d@[0] }
    proof fn lemma_is_utf8(data: Seq<u8>, d: [u8; 1]) { }
    open spec fn is_lp() -> bool { true }
    proof fn lemma_is_lp(data: Seq<u8>, d: [u8; 1]) { }
    open spec fn is_ue2() -> bool { false }
    proof fn lemma_is_ue2(data: Seq<u8>, d: [u8; 1]) { }
    open spec fn consumed(data: Seq<u8>, d: [u8; 1]) -> nat { lp_consumed(data, d@[0]) }
    open spec fn text(data: Seq<u8>, d: [u8; 1]) -> Seq<char> { lp_txt(data, d@[0]) }
    open spec fn decodes(data: Seq<u8>, d: [u8; 1]) -> bool { lp_ok(data, d@[0]) }
    open spec fn wire(txt: Seq<char>, d: [u8; 1]) -> Seq<u8> { seq![utf8_bytes(txt).len() as u8] + utf8_bytes(txt) }
    open spec fn wire_ok(txt: Seq<char>, d: [u8; 1]) -> bool { utf8_bytes(txt).len() <= 255 && no_byte(utf8_bytes(txt), d@[0]) }
    proof fn lemma_wire(txt: Seq<char>, d: [u8; 1], tail: Seq<u8>) {
        let a = utf8_bytes(txt);
        let n = a.len() as int;
        let data = (seq![a.len() as u8] + a) + tail;
        assert(data[0] == a.len() as u8);
        assert(data.len() == 1 + n + tail.len());
        let st = skip_take(data, 1, n);
        assert(st =~= a);
        lemma_first_index_of(a, d@[0]);
        assert(first_index_of(a, d@[0]) == a.len()) by {
            if first_index_of(a, d@[0]) < a.len() { assert(a[first_index_of(a, d@[0])] == d@[0]); }
        }
        assert(data.subrange(1, 1 + n) =~= a);
        axiom_utf8_roundtrip(txt);
    }
/*@ fn file=crates/lib/src/buffer.rs impl="impl StringDecoder for Utf8LengthPrefixedDecoder" name=decode_string
use R8:skip_take_position_eq
body_start {
    proof { if data@.len() >= 1 { lemma_first_index_of(skip_take(data@, 1, data@[0] as int), delimiter@[0]); } }
}
@*/
}

/// reading a length-prefixed string from `cat(lpstr(txt), t)` (delimiter 0 never occurs inside): yields txt, leaves t
pub broadcast proof fn lemma_lp_read(txt: Seq<char>, t: Seq<u8>, z: u8)
    requires no_nul(txt), utf8_bytes(txt).len() <= 255
    ensures
        #![trigger lp_consumed(cat(lpstr(txt), t), z)]
        #![trigger lp_ok(cat(lpstr(txt), t), z)]
        z == 0u8 ==> lp_consumed(cat(lpstr(txt), t), z) == lpstr(txt).len()
                  && lp_ok(cat(lpstr(txt), t), z)
                  && lp_txt(cat(lpstr(txt), t), z) == txt,
{
    if z == 0u8 {
        let d: [u8; 1] = [0u8];
        axiom_utf8_no_nul(txt);
        Utf8LengthPrefixedDecoder::lemma_wire(txt, d, t);
        lemma_cat_is_add(lpstr(txt), t);
    }
}
pub broadcast proof fn lemma_default_delimiter_lp()
    ensures #[trigger] delim_of::<Utf8LengthPrefixedDecoder>(None::<[u8; 1]>)@[0] == 0u8
{}
pub broadcast group group_lp { lemma_lp_read, lemma_default_delimiter_lp, group_stream }
/*@ present file=crates/lib/src/buffer.rs text="pub struct Utf16Decoder<B: ByteOrder> { _marker: PhantomData<B>, }" @*/
pub struct Utf16Decoder<B: ByteOrder> { _marker: PhantomData<B> }
pub open spec fn u16_units(le: bool, data: Seq<u8>) -> Seq<u16> {
    Seq::new((data.len() / 2) as nat, |i: int| ord_nat(le, data.subrange(2 * i, 2 * i + 2)) as u16)
}
/*@ present file=crates/lib/src/buffer.rs text="impl<B: ByteOrder> StringDecoder for Utf16Decoder<B> {" @*/
impl<B: ByteOrder> StringDecoder for Utf16Decoder<B> {
/*@ item file=crates/lib/src/buffer.rs impl="impl<B: ByteOrder> StringDecoder for Utf16Decoder<B>" kind=type name=Delimiter @*/
/*@ item file=crates/lib/src/buffer.rs impl="impl<B: ByteOrder> StringDecoder for Utf16Decoder<B>" kind=const name=DELIMITER @*/
    // reference model: 2-byte units up to the first unit equal to the delimiter; consume units and
    // delimiter, or the rest of the packet if unterminated.
    open spec fn is_utf8() -> bool { false }
    open spec fn d0(d: [u8; 2]) -> u8 { d@[0] }
    proof fn lemma_is_utf8(data: Seq<u8>, d: [u8; 2]) { }
    open spec fn is_lp() -> bool { false }
    proof fn lemma_is_lp(data: Seq<u8>, d: [u8; 2]) { }
    open spec fn is_ue2() -> bool { false }
    proof fn lemma_is_ue2(data: Seq<u8>, d: [u8; 2]) { }
    open spec fn consumed(data: Seq<u8>, d: [u8; 2]) -> nat {
        if first_pair_index(data, d@) < data.len() / 2 { (2 * first_pair_index(data, d@) + 2) as nat } else { data.len() }
    }
    open spec fn text(data: Seq<u8>, d: [u8; 2]) -> Seq<char> {
        utf16_text(u16_units(B::is_le(), data.subrange(0, 2 * first_pair_index(data, d@))))
    }
    open spec fn decodes(data: Seq<u8>, d: [u8; 2]) -> bool {
        utf16_valid(u16_units(B::is_le(), data.subrange(0, 2 * first_pair_index(data, d@))))
    }
    // (no wire form is stated for UTF-16: the step form of read_string is vacuous for this decoder)
    open spec fn wire(txt: Seq<char>, d: [u8; 2]) -> Seq<u8> { Seq::empty() }
    open spec fn wire_ok(txt: Seq<char>, d: [u8; 2]) -> bool { false }
    proof fn lemma_wire(txt: Seq<char>, d: [u8; 2], tail: Seq<u8>) { }
/*@ fn file=crates/lib/src/buffer.rs impl="impl<B: ByteOrder> StringDecoder for Utf16Decoder<B>" name=decode_string
use R8:chunks2_position_eq R17:data@.len()
closure "|pos| pos * 2" {
    |pos: usize| -> (ret: usize) requires pos * 2 <= usize::MAX ensures ret == pos * 2 { pos * 2 }
}
body_start {
    broadcast use group_alloc;
    proof { lemma_first_pair_index(data@, delimiter@); }
}
after "B::read_u16_into" {
    proof {
        let pre = data@.subrange(0, 2 * first_pair_index(data@, delimiter@));
        assert(paired_buf@.len() == pre.len() / 2);
        assert forall|i: int| 0 <= i < paired_buf@.len() implies paired_buf@[i] == u16_units(B::is_le(), pre)[i] by {
            assert(paired_buf@[i] as nat == ord_nat(B::is_le(), pre.subrange(2 * i, 2 * i + 2)));
        }
        assert(paired_buf@ =~= u16_units(B::is_le(), pre));
    }
}
@*/
}

// path aliases so that extracted code may keep writing `byteorder::ByteOrder`, `buffer::StringDecoder`, ...
pub mod byteorder { pub use crate::{ByteOrder, LittleEndian, BigEndian}; }
pub mod buffer { pub use crate::{Buffer, BufferRead, StringDecoder, Utf8Decoder, Utf8LengthPrefixedDecoder, Utf16Decoder}; }
//@ body-end
} // verus!
fn main() {}
