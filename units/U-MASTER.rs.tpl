//@ unit U-MASTER props=C16,C09,C01,C13
// Valve master server: request/reply of one page, paging of the complete query, filter groups
#![allow(unused_imports, dead_code, unused_variables, unused_mut, unused_parens)]
use vstd::prelude::*;
use vstd::std_specs::iter::IteratorSpec;
use std::marker::PhantomData;
use std::convert::TryInto;
use std::collections::HashMap;
use std::cmp::Ordering;

verus! {
/*@ import unit=U-BUF @*/
/*@ include path=std_model2.rs @*/
/*@ include path=wire_model.rs @*/
/*@ include path=net_model.rs @*/
//@ body-begin


/*@ item file=crates/lib/src/services/valve_master_server/types.rs kind=enum name=Region
attrs {
#[derive(PartialEq, Eq, Structural, Clone, Copy)]
}
@*/

// ---------------- filters: three groups, each a map from the KIND of a filter to the filter ----------------
// The byte encoding of a filter is the Kani harnesses' business (master_filter_*); what the property says about the
// builders is a statement about the three maps.
/*@ item file=crates/lib/src/services/valve_master_server/types.rs kind=enum name=Filter @*/
use std::mem::Discriminant;
#[verifier::external_type_specification]
#[verifier::external_body]
#[verifier::reject_recursive_types(T)]
pub struct ExDiscriminant<T>(std::mem::Discriminant<T>);
/// std::mem::discriminant: a function of the variant only (ASSUMED, std documentation)
pub uninterp spec fn disc_spec<T>(f: T) -> Discriminant<T>;
pub assume_specification<T>[ std::mem::discriminant::<T> ](v: &T) -> (r: Discriminant<T>)
    ensures r == disc_spec(*v);
pub broadcast axiom fn axiom_discriminant_obeys_key_model()
    ensures #[trigger] vstd::std_specs::hash::obeys_key_model::<Discriminant<Filter>>();

/*@ item file=crates/lib/src/services/valve_master_server/types.rs kind=struct name=SearchFilters @*/

impl SearchFilters {
/*@ fn file=crates/lib/src/services/valve_master_server/types.rs impl="impl SearchFilters" name=new
spec {
    ensures r.filters@ == Map::<Discriminant<Filter>, Filter>::empty(), r.nand_filters@ == Map::<Discriminant<Filter>, Filter>::empty(),
            r.nor_filters@ == Map::<Discriminant<Filter>, Filter>::empty(),
}
body_start {
    broadcast use vstd::std_specs::hash::group_hash_axioms, axiom_discriminant_obeys_key_model;
}
@*/
/*@ fn file=crates/lib/src/services/valve_master_server/types.rs impl="impl SearchFilters" name=insert
spec {
    ensures
        // C16: the filter lands in the plain group, replacing an earlier filter of the same kind; the other groups are untouched
        r.filters@ == self.filters@.insert(disc_spec(filter), filter),
        r.nand_filters@ == self.nand_filters@, r.nor_filters@ == self.nor_filters@,
}
body_start {
    broadcast use vstd::std_specs::hash::group_hash_axioms, axiom_discriminant_obeys_key_model;
}
@*/
/*@ fn file=crates/lib/src/services/valve_master_server/types.rs impl="impl SearchFilters" name=insert_nand
spec {
    ensures
        r.nand_filters@ == self.nand_filters@.insert(disc_spec(filter), filter),
        r.filters@ == self.filters@, r.nor_filters@ == self.nor_filters@,
}
body_start {
    broadcast use vstd::std_specs::hash::group_hash_axioms, axiom_discriminant_obeys_key_model;
}
@*/
/*@ fn file=crates/lib/src/services/valve_master_server/types.rs impl="impl SearchFilters" name=insert_nor
spec {
    ensures
        r.nor_filters@ == self.nor_filters@.insert(disc_spec(filter), filter),
        r.filters@ == self.filters@, r.nand_filters@ == self.nand_filters@,
}
body_start {
    broadcast use vstd::std_specs::hash::group_hash_axioms, axiom_discriminant_obeys_key_model;
}
@*/
}
// ---------------- one page ----------------
pub type Addr = (IpAddr, u16);
/// text of an address as `IpAddr::to_string` prints it (ASSUMED: injective, and 0.0.0.0 prints as "0.0.0.0")
pub uninterp spec fn ip_text(ip: IpAddr) -> Seq<char>;
pub open spec fn zero_ip() -> IpAddr { IpAddr::V4(Ipv4Addr { a: 0, b: 0, c: 0, d: 0 }) }
pub broadcast axiom fn axiom_ip_text_injective(a: IpAddr, b: IpAddr)
    ensures (#[trigger] ip_text(a) == #[trigger] ip_text(b)) ==> a == b;
pub broadcast axiom fn axiom_zero_ip_text()
    ensures #[trigger] ip_text(zero_ip()) == "0.0.0.0"@;
// `latest_ip.to_string()`
#[verifier::external_body]
pub fn idiom_ip_to_string(latest_ip: &IpAddr) -> (r: String)
    ensures r@ == ip_text(*latest_ip)
{ latest_ip.to_string() }
// `latest_ip_string == "0.0.0.0"`
#[verifier::external_body]
pub fn idiom_is_zero_text(latest_ip_string: &String) -> (r: bool)
    ensures r == (latest_ip_string@ == "0.0.0.0"@)
{ latest_ip_string == "0.0.0.0" }
// `latest_ip_string == last_ip`
#[verifier::external_body]
pub fn idiom_same_text(latest_ip_string: &String, last_ip: &String) -> (r: bool)
    ensures r == (latest_ip_string@ == last_ip@)
{ latest_ip_string == last_ip }

/// the request of one page: '1', region, "<ip>:<port>", NUL, filter string.  Its bytes are the Kani harnesses' business
/// (master_construct_payload); here it is a function of exactly these four arguments.
pub uninterp spec fn master_payload(region: Region, filters: Option<SearchFilters>, last_ip: Seq<char>, last_port: u16) -> Seq<u8>;

pub open spec fn is_v4(a: Addr) -> bool { a.0 is V4 }
pub open spec fn all_v4(s: Seq<Addr>) -> bool { forall|j: int| 0 <= j < s.len() ==> is_v4(#[trigger] s[j]) }
pub open spec fn enc_addrs(s: Seq<Addr>, i: int, tail: Seq<u8>) -> Seq<u8>
    decreases s.len() - i
{
    if i < 0 || i >= s.len() { tail } else {
        rn!(seq![s[i].0->V4_0.a]; seq![s[i].0->V4_0.b]; seq![s[i].0->V4_0.c]; seq![s[i].0->V4_0.d]; enc_u16(false, s[i].1); enc_addrs(s, i + 1, tail))
    }
}
/// a reply page (Master Server Query Protocol): FF FF FF FF 66 0A, then 6 bytes per address (4 octets, port big-endian)
pub open spec fn page(s: Seq<Addr>) -> Seq<u8> { cat(enc_u32(false, 0xFFFF_FFFFu32), cat(enc_u16(false, 26122u16), enc_addrs(s, 0, Seq::empty()))) }
pub open spec fn page_valid(s: Seq<Addr>) -> bool { all_v4(s) && page(s).len() <= 1400 }

/*@ fn file=crates/lib/src/services/valve_master_server/service.rs name=construct_payload props=C16,C09 assume=kani:master_construct_payload
spec {
    ensures r@ == master_payload(region, *filters, last_ip@, last_port),
}
@*/

/*@ item file=crates/lib/src/services/valve_master_server/service.rs kind=struct name=ValveMasterServer @*/

impl ValveMasterServer {
/*@ fn file=crates/lib/src/services/valve_master_server/service.rs impl="impl ValveMasterServer" name=query_specific props=C16,C09,C01,C13
use R1 R2
fn_attrs {
#[verifier::loop_isolation(false)]
}
spec {
    ensures
        final(self).socket.dest() == old(self).socket.dest(),
        // C09/C16: exactly one datagram is handed to the transport: the request for this region, these filters, this seed
        final(self).socket.attempts() == old(self).socket.attempts().push(master_payload(region, *search_filters, last_address_ip@, last_address_port)),
        r is Ok ==> final(self).socket.sent() == old(self).socket.sent().push(master_payload(region, *search_filters, last_address_ip@, last_address_port)),
        r is Err ==> final(self).socket.sent() == old(self).socket.sent()
                  || final(self).socket.sent() == old(self).socket.sent().push(master_payload(region, *search_filters, last_address_ip@, last_address_port)),
        // at most one datagram of the reply script is consumed; on success exactly one
        r is Ok ==> old(self).socket.script().len() > 0 && final(self).socket.script() == old(self).socket.script().drop_first(),
        r is Err ==> final(self).socket.script() == old(self).socket.script() || (old(self).socket.script().len() > 0 && final(self).socket.script() == old(self).socket.script().drop_first()),
        // C16: a well-formed page of up to 1400 bytes yields exactly the listed addresses, in order (or the transport failed)
        forall|s: Seq<Addr>| page_valid(s) && old(self).socket.script().len() > 0 && old(self).socket.script()[0] == #[trigger] page(s)
            ==> (r is Err ==> is_transport_err(r->Err_0.kind)) && (r is Ok ==> r->Ok_0@ == s),
}
body_start {
    broadcast use group_cstr, group_wire;
}
loop 1 {
    invariant
        buf.wf(), buf.bytes() == received_data@,
        forall|s: Seq<Addr>| page_valid(s) && received_data@ == #[trigger] page(s)
            ==> ips@.len() <= s.len() && buf.rest() == enc_addrs(s, ips@.len() as int, Seq::empty())
                && forall|j: int| 0 <= j < ips@.len() ==> #[trigger] ips@[j] == s[j],
    decreases buf.rest().len(),
}
@*/
}

// ---------------- paging ----------------
pub open spec fn is_term(a: Addr) -> bool { a.0 == zero_ip() && a.1 == 0 }
/// all addresses of the first n pages, in order
pub open spec fn flat(ps: Seq<Seq<Addr>>, n: int) -> Seq<Addr>
    decreases n
{
    if n <= 0 { Seq::empty() } else { flat(ps, n - 1) + ps[n - 1] }
}
/// the seed of request number j: 0.0.0.0:0 for the first, the last address of the previous page afterwards
pub open spec fn seed_ip(ps: Seq<Seq<Addr>>, j: int) -> Seq<char> { if j <= 0 { "0.0.0.0"@ } else { ip_text(ps[j - 1].last().0) } }
pub open spec fn seed_port(ps: Seq<Seq<Addr>>, j: int) -> u16 { if j <= 0 { 0u16 } else { ps[j - 1].last().1 } }
/// page j is an intermediate page: it lists something, does not end with the terminator and moves past its seed
pub open spec fn continues(ps: Seq<Seq<Addr>>, j: int) -> bool {
    ps[j].len() > 0 && !is_term(ps[j].last()) && !(ip_text(ps[j].last().0) == seed_ip(ps, j) && ps[j].last().1 == seed_port(ps, j))
}
/// the server's reply script starts with the k pages ps (each a valid datagram), of which the last one ends with the terminator
pub open spec fn paged_script(script: Seq<Seq<u8>>, ps: Seq<Seq<Addr>>) -> bool {
    ps.len() >= 1 && script.len() >= ps.len()
    && (forall|j: int| 0 <= j < ps.len() ==> page_valid(#[trigger] ps[j]) && script[j] == page(ps[j]))
    && (forall|j: int| 0 <= j < ps.len() - 1 ==> #[trigger] continues(ps, j))
    && ps.last().len() > 0 && is_term(ps.last().last())
}
pub open spec fn requests_are(sent: Seq<Seq<u8>>, base: int, n: int, ps: Seq<Seq<Addr>>, region: Region, filters: Option<SearchFilters>) -> bool {
    sent.len() == base + n && forall|j: int| 0 <= j < n ==> #[trigger] sent[base + j] == master_payload(region, filters, seed_ip(ps, j), seed_port(ps, j))
}
pub proof fn lemma_flat_step(ps: Seq<Seq<Addr>>, n: int)
    requires n >= 0
    ensures flat(ps, n + 1) == flat(ps, n) + ps[n]
{}

// vacuity guard: the hypothesis of the paging contract is satisfiable (a script consisting of the terminator page)
pub proof fn lemma_paged_script_satisfiable()
    ensures exists|script: Seq<Seq<u8>>, ps: Seq<Seq<Addr>>| paged_script(script, ps)
{
    broadcast use group_stream, group_wire;
    let t: Addr = (zero_ip(), 0u16);
    let p: Seq<Addr> = seq![t];
    let ps: Seq<Seq<Addr>> = seq![p];
    let script: Seq<Seq<u8>> = seq![page(p)];
    assert(enc_addrs(p, 1, Seq::empty()) == Seq::<u8>::empty());
    assert(enc_addrs(p, 0, Seq::empty()).len() == 6) by { reveal_with_fuel(enc_addrs, 3); }
    assert(page(p).len() == 12);
    assert(is_v4(p[0]));
    assert(page_valid(ps[0]) && script[0] == page(ps[0]));
    assert(ps.last().last() == t);
    assert(paged_script(script, ps));
}

impl ValveMasterServer {
/*@ fn file=crates/lib/src/services/valve_master_server/service.rs impl="impl ValveMasterServer" name=query props=C16,C09,C01,C13
use R1 R2 R8:extend_vec
subst "latest_ip.to_string()" {
    idiom_ip_to_string(latest_ip)
}
subst `latest_ip_string == "0.0.0.0"` {
    idiom_is_zero_text(&latest_ip_string)
}
subst "latest_ip_string == last_ip" {
    idiom_same_text(&latest_ip_string, &last_ip)
}
fn_attrs {
#[verifier::loop_isolation(false)]
}
spec {
    ensures
        final(self).socket.dest() == old(self).socket.dest(),
        // C16: for every sequence of reply pages ending with the terminator: all listed addresses, in order, without the
        // terminator; one request per page, each seeded with the last address of the previous page; nothing after the terminator
        forall|ps: Seq<Seq<Addr>>| #[trigger] paged_script(old(self).socket.script(), ps)
            ==> (r is Err ==> is_transport_err(r->Err_0.kind))
             && (r is Ok ==> r->Ok_0@ == flat(ps, ps.len() as int).drop_last()
                    && requests_are(final(self).socket.sent(), old(self).socket.sent().len() as int, ps.len() as int, ps, region, search_filters)
                    && final(self).socket.script() == old(self).socket.script().skip(ps.len() as int)),
}
body_start {
    broadcast use axiom_ip_text_injective, axiom_zero_ip_text;
    let ghost mut n: int = 0;
    proof { assert(ip_text(zero_ip()) == "0.0.0.0"@); }
}
before "let new_ips = self.query_specific(region, &search_filters, last_ip.as_str(), last_port)?;" {
    proof {
        // the next datagram of the script is page number n
        assert forall|ps: Seq<Seq<Addr>>| #[trigger] paged_script(old(self).socket.script(), ps) implies
            self.socket.script().len() > 0 && page_valid(ps[n]) && self.socket.script()[0] == page(ps[n]) by {
            assert(old(self).socket.script().skip(n)[0] == old(self).socket.script()[n]);
        }
    }
    let ghost pre_sent = self.socket.sent();
    let ghost pre_script = self.socket.script();
}
after "let new_ips = self.query_specific(region, &search_filters, last_ip.as_str(), last_port)?;" {
    proof {
        assert forall|ps: Seq<Seq<Addr>>| #[trigger] paged_script(old(self).socket.script(), ps) implies
            new_ips@ == ps[n] && self.socket.script() == old(self).socket.script().skip(n + 1)
            && requests_are(self.socket.sent(), old(self).socket.sent().len() as int, n + 1, ps, region, search_filters)
            && flat(ps, n + 1) == flat(ps, n) + ps[n]
            && (n < ps.len() - 1 ==> continues(ps, n)) by {
            assert(pre_script == old(self).socket.script().skip(n));
            assert(pre_script[0] == page(ps[n]));
            assert(pre_script.drop_first() =~= old(self).socket.script().skip(n + 1));
            lemma_flat_step(ps, n);
            assert(requests_are(pre_sent, old(self).socket.sent().len() as int, n, ps, region, search_filters));
        }
        n = n + 1;
    }
}
loop 1 {
    invariant
        n >= 0,
        self.socket.dest() == old(self).socket.dest(),
        forall|ps: Seq<Seq<Addr>>| #[trigger] paged_script(old(self).socket.script(), ps)
            ==> n <= ps.len()
             && self.socket.script() == old(self).socket.script().skip(n)
             && requests_are(self.socket.sent(), old(self).socket.sent().len() as int, n, ps, region, search_filters)
             && (!exit_fetching ==> n < ps.len() && ips@ == flat(ps, n) && last_ip@ == seed_ip(ps, n) && last_port == seed_port(ps, n))
             && (exit_fetching ==> n == ps.len() && ips@ == flat(ps, n).drop_last()),
    decreases self.socket.script().len() + (if exit_fetching { 0int } else { 1int }),
}
@*/
}

//@ body-end
} // verus!
fn main() {}
