//@ unit U-VALVE props=C02,C01,C13
// Valve A2S protocol (crates/lib/src/protocols/valve/{protocol,types}.rs)
#![allow(unused_imports, dead_code, unused_variables, unused_mut, unused_parens)]
use vstd::prelude::*;
use vstd::std_specs::iter::IteratorSpec;
use std::marker::PhantomData;
use std::convert::TryInto;
use std::collections::HashMap;
use std::cmp::Ordering;

verus! {
/*@ import unit=U-BUF @*/
/*@ import unit=U-UTIL @*/
/*@ include path=std_model2.rs @*/
/*@ include path=text_model.rs @*/
/*@ include path=wire_model.rs @*/
/*@ include path=net_model.rs @*/
//@ body-begin

// ---------------- types (verbatim; derives replaced) ----------------
/*@ item file=crates/lib/src/protocols/valve/types.rs kind=enum name=Server
attrs {
#[derive(PartialEq, Eq, Structural, Clone, Copy)]
}
@*/
/*@ item file=crates/lib/src/protocols/valve/types.rs kind=enum name=Environment
attrs {
#[derive(PartialEq, Eq, Structural, Clone, Copy)]
}
@*/
/*@ item file=crates/lib/src/protocols/valve/types.rs kind=enum name=Engine
attrs {
#[derive(PartialEq, Eq, Structural, Clone, Copy)]
}
@*/
/*@ item file=crates/lib/src/protocols/valve/types.rs kind=struct name=TheShip @*/
/*@ item file=crates/lib/src/protocols/valve/types.rs kind=struct name=ExtraData @*/
/*@ item file=crates/lib/src/protocols/valve/types.rs kind=struct name=ModData @*/
/*@ item file=crates/lib/src/protocols/valve/types.rs kind=struct name=ServerInfo @*/
/*@ item file=crates/lib/src/protocols/valve/types.rs kind=struct name=ServerPlayer @*/
/*@ item file=crates/lib/src/protocols/valve/types.rs kind=struct name=Packet @*/
/*@ item file=crates/lib/src/protocols/valve/protocol.rs kind=struct name=SplitPacket @*/

impl Engine {
/*@ fn file=crates/lib/src/protocols/valve/types.rs impl="impl Engine" name=new
spec {
    ensures r == Engine::Source(Some((appid, None::<u32>))),
}
@*/
}

impl Server {
// Valve wiki: 'd' dedicated, 'l' non-dedicated (listen), 'p' SourceTV relay; rag-doll kung fu sends upper case
/*@ fn file=crates/lib/src/protocols/valve/types.rs impl="impl Server" name=from_gldsrc
use R2
spec {
    ensures
        (value == 100 || value == 68) ==> r is Ok && r->Ok_0 == Server::Dedicated,
        (value == 108 || value == 76) ==> r is Ok && r->Ok_0 == Server::NonDedicated,
        (value == 112 || value == 80) ==> r is Ok && r->Ok_0 == Server::TV,
        !(value == 100 || value == 68 || value == 108 || value == 76 || value == 112 || value == 80)
            ==> r is Err && r->Err_0.kind == UnknownEnumCast,
}
@*/
}
impl Environment {
/*@ fn file=crates/lib/src/protocols/valve/types.rs impl="impl Environment" name=from_gldsrc
use R2
spec {
    ensures
        (value == 108 || value == 76) ==> r is Ok && r->Ok_0 == Environment::Linux,
        (value == 119 || value == 87) ==> r is Ok && r->Ok_0 == Environment::Windows,
        (value == 109 || value == 77 || value == 111 || value == 79) ==> r is Ok && r->Ok_0 == Environment::Mac,
        !(value == 108 || value == 76 || value == 119 || value == 87 || value == 109 || value == 77 || value == 111 || value == 79)
            ==> r is Err && r->Err_0.kind == UnknownEnumCast,
}
@*/
}

impl Packet {
/*@ fn file=crates/lib/src/protocols/valve/types.rs impl="impl Packet" name=new props=C09,C02
spec {
    ensures r.header == 0xFFFF_FFFFu32, r.kind == kind, r.payload == payload,
}
@*/
/*@ fn file=crates/lib/src/protocols/valve/types.rs impl="impl Packet" name=new_from_bufferer
spec {
    requires old(buffer).wf(),
    ensures
        final(buffer).wf(), final(buffer).bytes() == old(buffer).bytes(),
        r is Ok <==> old(buffer).rest().len() >= 5,
        r is Ok ==> r->Ok_0.header == dec_u32(true, old(buffer).rest().subrange(0, 4))
                 && r->Ok_0.kind == old(buffer).rest()[4]
                 && r->Ok_0.payload@ == old(buffer).rest().subrange(5, old(buffer).rest().len() as int),
        r is Err ==> r->Err_0.kind == PacketUnderflow,
}
body_start {
    broadcast use group_text;
}
@*/
}


// ---------------- split packets (Valve wiki "Multi-packet Response Format") ----------------
pub open spec fn opt_u16(le: bool, o: Option<u16>) -> Seq<u8> { if o is Some { enc_u16(le, o->Some_0) } else { Seq::empty() } }
pub open spec fn opt_comp(o: Option<(u32, u32)>) -> Seq<u8> {
    if o is Some { enc_u32(true, o->Some_0.0) + enc_u32(true, o->Some_0.1) } else { Seq::empty() }
}
/// Source layout: header, id, total, number, [size unless protocol 7 + app 240], [decompressed size, crc32 if id bit 31], payload
pub open spec fn enc_split_source(header: u32, id: u32, total: u8, number: u8, size: Option<u16>, comp: Option<(u32, u32)>, payload: Seq<u8>) -> Seq<u8> {
    enc_u32(true, header) + (enc_u32(true, id) + (seq![total] + (seq![number] + (opt_u16(true, size) + (opt_comp(comp) + payload)))))
}
/// GoldSrc layout: header, id, one byte (upper nibble = number, lower nibble = total), payload
pub open spec fn enc_split_goldsrc(header: u32, id: u32, total: u8, number: u8, payload: Seq<u8>) -> Seq<u8> {
    enc_u32(true, header) + (enc_u32(true, id) + (seq![(number * 16 + total) as u8] + payload))
}
pub open spec fn no_size_field(engine: Engine, protocol: u8) -> bool { protocol == 7 && engine == Engine::Source(Some((240u32, None::<u32>))) }

impl SplitPacket {
/*@ fn file=crates/lib/src/protocols/valve/protocol.rs impl="impl SplitPacket" name=new props=C02,C01,C08
spec {
    requires old(buffer).wf(),
    ensures
        final(buffer).wf(), final(buffer).bytes() == old(buffer).bytes(),
        // Source engine: the parser is the left inverse of the documented layout
        forall|header: u32, id: u32, total: u8, number: u8, size: Option<u16>, comp: Option<(u32, u32)>, payload: Seq<u8>|
            engine is Source
            && (size is None <==> no_size_field(*engine, protocol))
            && (comp is Some <==> (id >> 31) & 1u32 == 1u32)
            && old(buffer).rest() == #[trigger] enc_split_source(header, id, total, number, size, comp, payload)
            ==> r is Ok && r->Ok_0.header == header && r->Ok_0.id == id && r->Ok_0.total == total && r->Ok_0.number == number
                && r->Ok_0.size == (if size is Some { size->Some_0 } else { 1248u16 })
                && r->Ok_0.decompressed == comp && r->Ok_0.payload@ == payload,
        // GoldSrc
        forall|header: u32, id: u32, total: u8, number: u8, payload: Seq<u8>|
            engine is GoldSrc && total < 16 && number < 16
            && old(buffer).rest() == #[trigger] enc_split_goldsrc(header, id, total, number, payload)
            ==> r is Ok && r->Ok_0.header == header && r->Ok_0.id == id && r->Ok_0.total == total && r->Ok_0.number == number
                && r->Ok_0.decompressed is None && r->Ok_0.payload@ == payload,
}
body_start {
    broadcast use group_text, group_wire;
}
@*/
}
//@ body-end
} // verus!
fn main() {}
