//@ unit U-VALVE props=C02,C01,C13
// Valve A2S protocol (crates/lib/src/protocols/valve/{protocol,types}.rs)
#![allow(unused_imports, dead_code, unused_variables, unused_mut, unused_parens)]
use vstd::prelude::*;
use vstd::std_specs::iter::IteratorSpec;
use std::marker::PhantomData;
use std::convert::TryInto;
use std::collections::HashMap;
use std::cmp::Ordering;

verus! {
/*@ import unit=U-BUF @*/
/*@ import unit=U-UTIL @*/
/*@ include path=std_model2.rs @*/
/*@ include path=wire_model.rs @*/
/*@ include path=net_model.rs @*/
/*@ include path=ext_model.rs @*/
//@ body-begin

// ---------------- types (verbatim; derives replaced) ----------------
/*@ item file=crates/lib/src/protocols/valve/types.rs kind=enum name=Server
attrs {
#[derive(PartialEq, Eq, Structural, Clone, Copy)]
}
@*/
/*@ item file=crates/lib/src/protocols/valve/types.rs kind=enum name=Environment
attrs {
#[derive(PartialEq, Eq, Structural, Clone, Copy)]
}
@*/
/*@ item file=crates/lib/src/protocols/valve/types.rs kind=enum name=Engine
attrs {
#[derive(PartialEq, Eq, Structural, Clone, Copy)]
}
@*/
/*@ item file=crates/lib/src/protocols/valve/types.rs kind=struct name=TheShip @*/
/*@ item file=crates/lib/src/protocols/valve/types.rs kind=struct name=ExtraData @*/
/*@ item file=crates/lib/src/protocols/valve/types.rs kind=struct name=ModData @*/
/*@ item file=crates/lib/src/protocols/valve/types.rs kind=struct name=ServerInfo @*/
/*@ item file=crates/lib/src/protocols/valve/types.rs kind=struct name=ServerPlayer @*/
/*@ item file=crates/lib/src/protocols/valve/types.rs kind=struct name=Packet @*/
/*@ item file=crates/lib/src/protocols/valve/protocol.rs kind=struct name=SplitPacket @*/

impl Engine {
/*@ fn file=crates/lib/src/protocols/valve/types.rs impl="impl Engine" name=new
spec {
    ensures r == Engine::Source(Some((appid, None::<u32>))),
}
@*/
}

impl Server {
// Valve wiki: 'd' dedicated, 'l' non-dedicated (listen), 'p' SourceTV relay; rag-doll kung fu sends upper case
/*@ fn file=crates/lib/src/protocols/valve/types.rs impl="impl Server" name=from_gldsrc
use R2
spec {
    ensures
        (value == 100 || value == 68) ==> r is Ok && r->Ok_0 == Server::Dedicated,
        (value == 108 || value == 76) ==> r is Ok && r->Ok_0 == Server::NonDedicated,
        (value == 112 || value == 80) ==> r is Ok && r->Ok_0 == Server::TV,
        !(value == 100 || value == 68 || value == 108 || value == 76 || value == 112 || value == 80)
            ==> r is Err && r->Err_0.kind == UnknownEnumCast,
}
@*/
}
impl Environment {
/*@ fn file=crates/lib/src/protocols/valve/types.rs impl="impl Environment" name=from_gldsrc
use R2
spec {
    ensures
        (value == 108 || value == 76) ==> r is Ok && r->Ok_0 == Environment::Linux,
        (value == 119 || value == 87) ==> r is Ok && r->Ok_0 == Environment::Windows,
        (value == 109 || value == 77 || value == 111 || value == 79) ==> r is Ok && r->Ok_0 == Environment::Mac,
        !(value == 108 || value == 76 || value == 119 || value == 87 || value == 109 || value == 77 || value == 111 || value == 79)
            ==> r is Err && r->Err_0.kind == UnknownEnumCast,
}
@*/
}

impl Packet {
/*@ fn file=crates/lib/src/protocols/valve/types.rs impl="impl Packet" name=new props=C09,C02
spec {
    ensures r.header == 0xFFFF_FFFFu32, r.kind == kind, r.payload == payload,
}
@*/
// contract discharged by Kani on the real function (complete: loop-free over symbolic kind and payload bytes)
/*@ fn file=crates/lib/src/protocols/valve/types.rs impl="impl Packet" name=to_bytes props=C09 assume=kani:valve_packet_to_bytes
spec {
    ensures r@ == enc_u32(false, self.header).push(self.kind) + self.payload@,   // header big-endian, kind, payload
}
@*/
/*@ fn file=crates/lib/src/protocols/valve/types.rs impl="impl Packet" name=new_from_bufferer
spec {
    requires old(buffer).wf(),
    ensures
        final(buffer).wf(), final(buffer).bytes() == old(buffer).bytes(),
        r is Ok <==> old(buffer).rest().len() >= 5,
        r is Ok ==> r->Ok_0.header == dec_u32(true, old(buffer).rest().subrange(0, 4))
                 && r->Ok_0.kind == old(buffer).rest()[4]
                 && r->Ok_0.payload@ == old(buffer).rest().subrange(5, old(buffer).rest().len() as int),
        r is Err ==> r->Err_0.kind == PacketUnderflow,
}
body_start {
    broadcast use group_cstr;
    proof { reveal(head_of); reveal(tail_of); }
}
@*/
}


// ---------------- split packets (Valve wiki "Multi-packet Response Format") ----------------
pub open spec fn opt_u16(le: bool, o: Option<u16>, tail: Seq<u8>) -> Seq<u8> { if o is Some { cat(enc_u16(le, o->Some_0), tail) } else { tail } }
pub open spec fn opt_comp(o: Option<(u32, u32)>, tail: Seq<u8>) -> Seq<u8> {
    if o is Some { rn!(enc_u32(true, o->Some_0.0); enc_u32(true, o->Some_0.1); tail) } else { tail }
}
/// Source layout: header, id, total, number, [size unless protocol 7 + app 240], [decompressed size, crc32 if id bit 31], payload
pub open spec fn enc_split_source(header: u32, id: u32, total: u8, number: u8, size: Option<u16>, comp: Option<(u32, u32)>, payload: Seq<u8>) -> Seq<u8> {
    rn!(enc_u32(true, header); enc_u32(true, id); seq![total]; seq![number]; opt_u16(true, size, opt_comp(comp, payload)))
}
/// GoldSrc layout: header, id, one byte (upper nibble = number, lower nibble = total), payload
pub open spec fn enc_split_goldsrc(header: u32, id: u32, total: u8, number: u8, payload: Seq<u8>) -> Seq<u8> {
    rn!(enc_u32(true, header); enc_u32(true, id); seq![(number * 16 + total) as u8]; payload)
}
pub open spec fn no_size_field(engine: Engine, protocol: u8) -> bool { protocol == 7 && engine == Engine::Source(Some((240u32, None::<u32>))) }

impl SplitPacket {
/*@ fn file=crates/lib/src/protocols/valve/protocol.rs impl="impl SplitPacket" name=new props=C02,C01,C08
spec {
    requires old(buffer).wf(),
    ensures
        final(buffer).wf(), final(buffer).bytes() == old(buffer).bytes(),
        // Source engine: the parser is the left inverse of the documented layout
        forall|header: u32, id: u32, total: u8, number: u8, size: Option<u16>, comp: Option<(u32, u32)>, payload: Seq<u8>|
            engine is Source
            && (size is None <==> no_size_field(*engine, protocol))
            && (comp is Some <==> (id >> 31) & 1u32 == 1u32)
            && old(buffer).rest() == #[trigger] enc_split_source(header, id, total, number, size, comp, payload)
            ==> r is Ok && r->Ok_0.header == header && r->Ok_0.id == id && r->Ok_0.total == total && r->Ok_0.number == number
                && r->Ok_0.size == (if size is Some { size->Some_0 } else { 1248u16 })
                && r->Ok_0.decompressed == comp && r->Ok_0.payload@ == payload,
        // GoldSrc
        forall|header: u32, id: u32, total: u8, number: u8, payload: Seq<u8>|
            engine is GoldSrc && total < 16 && number < 16
            && old(buffer).rest() == #[trigger] enc_split_goldsrc(header, id, total, number, payload)
            ==> r is Ok && r->Ok_0.header == header && r->Ok_0.id == id && r->Ok_0.total == total && r->Ok_0.number == number
                && r->Ok_0.decompressed is None && r->Ok_0.payload@ == payload,
}
body_start {
    broadcast use group_cstr, group_wire;
}
@*/

// bzip2 + crc32 (both assumed): the size/crc comparison logic is what is proved here
/*@ fn file=crates/lib/src/protocols/valve/protocol.rs impl="impl SplitPacket" name=get_payload props=C02,C01,C13
use R1 R17:self.payload@.len() R18
spec {
    ensures
        self.decompressed is None ==> r is Ok && r->Ok_0@ == self.payload@,
        self.decompressed is Some && r is Ok ==>
            r->Ok_0@.len() == self.decompressed->Some_0.0 && crc32(r->Ok_0@) == self.decompressed->Some_0.1
            && r->Ok_0@ == bz_decompress(self.payload@, self.decompressed->Some_0.0 as nat),
        r is Err ==> r->Err_0.kind == Decompress,
}
body_start {
    broadcast use group_alloc;
}
@*/
}

/*@ item file=crates/lib/src/protocols/valve/types.rs kind=enum name=Request
attrs {
#[derive(PartialEq, Eq, Structural, Clone, Copy)]
}
@*/
/// A2S request payloads (Valve wiki): A2S_INFO carries "Source Engine Query\0", the others a -1 challenge
#[verifier::opaque]
pub open spec fn default_payload(k: Request) -> Seq<u8> {
    match k {
        Request::Info => seq![0x53u8, 0x6F, 0x75, 0x72, 0x63, 0x65, 0x20, 0x45, 0x6E, 0x67, 0x69, 0x6E, 0x65, 0x20, 0x51, 0x75, 0x65, 0x72, 0x79, 0x00],
        _ => seq![0xFFu8, 0xFF, 0xFF, 0xFF],
    }
}
impl Request {
/*@ fn file=crates/lib/src/protocols/valve/types.rs impl="impl Request" name=get_default_payload props=C09 assume=kani:valve_default_payload
spec {
    ensures r@ == default_payload(self),
}
@*/
}
/*@ item file=crates/lib/src/protocols/valve/protocol.rs kind=struct name=ValveProtocol @*/
/*@ item file=crates/lib/src/protocols/valve/protocol.rs kind=static name=PACKET_SIZE @*/

pub proof fn lemma_be_ffffffff()
    ensures enc_u32(false, 0xFFFF_FFFFu32) == seq![0xFFu8, 0xFFu8, 0xFFu8, 0xFFu8]
{
    assert(0xFFFF_FFFFu32 & 0xff == 0xff && (0xFFFF_FFFFu32 >> 8) & 0xff == 0xff && (0xFFFF_FFFFu32 >> 16) & 0xff == 0xff && (0xFFFF_FFFFu32 >> 24) & 0xff == 0xff) by (bit_vector);
    reveal(enc_u32);
    assert(enc_u32(false, 0xFFFF_FFFFu32) =~= seq![0xFFu8, 0xFFu8, 0xFFu8, 0xFFu8]);
}

/// R8:sort_by_field helper for `chunk_packets.sort_by(|a, b| a.number.cmp(&b.number))` (body is the idiom; spec assumed:
/// the result is a permutation of the input, ordered by `number`)
pub open spec fn sorted_by_number(v: Seq<SplitPacket>) -> bool {
    forall|i: int, j: int| 0 <= i <= j < v.len() ==> v[i].number <= v[j].number
}
#[verifier::external_body]
pub fn idiom_sort_by_number(v: &mut Vec<SplitPacket>)
    ensures
        final(v)@.len() == old(v)@.len(),
        final(v)@.to_multiset() == old(v)@.to_multiset(),
        sorted_by_number(final(v)@),
{ v.sort_by(|a, b| a.number.cmp(&b.number)) }

/// the A2S request datagram: FF FF FF FF, kind, payload
pub open spec fn a2s_request(kind: u8, payload: Seq<u8>) -> Seq<u8> { seq![0xFFu8, 0xFFu8, 0xFFu8, 0xFFu8].push(kind) + payload }

/// every datagram appended to the send log since index `from` is an A2S request of kind `kind`
pub open spec fn is_req_of_kind(d: Seq<u8>, kind: u8) -> bool { exists|p: Seq<u8>| d == a2s_request(kind, p) }
pub open spec fn only_kind_since(sent: Seq<Seq<u8>>, from: int, kind: u8) -> bool {
    forall|i: int| from <= i < sent.len() ==> is_req_of_kind(#[trigger] sent[i], kind)
}
/// some datagram in the log is a request of kind `kind`
pub open spec fn has_kind(att: Seq<Seq<u8>>, kind: u8) -> bool { exists|i: int| 0 <= i < att.len() && is_req_of_kind(#[trigger] att[i], kind) }
/// a request of kind `kind` has been handed to the transport (and earlier attempts are untouched)
pub open spec fn attempted(a0: Seq<Seq<u8>>, a1: Seq<Seq<u8>>, kind: u8) -> bool { grew(a0, a1) && has_kind(a1, kind) }
pub broadcast proof fn lemma_has_kind_grew(a: Seq<Seq<u8>>, b: Seq<Seq<u8>>, kind: u8)
    requires grew(a, b), has_kind(a, kind)
    ensures #![trigger grew(a, b), has_kind(a, kind)] has_kind(b, kind)
{
    let i = choose|i: int| 0 <= i < a.len() && is_req_of_kind(#[trigger] a[i], kind);
    assert(b[i] == a[i]);
}
pub proof fn lemma_has_kind_push(a: Seq<Seq<u8>>, x: Seq<u8>, kind: u8)
    ensures
        is_req_of_kind(x, kind) ==> has_kind(a.push(x), kind),
        grew(a, a.push(x)),
        has_kind(a, kind) ==> has_kind(a.push(x), kind),
{
    let b = a.push(x);
    assert(b[a.len() as int] == x);
    if has_kind(a, kind) {
        let i = choose|i: int| 0 <= i < a.len() && is_req_of_kind(#[trigger] a[i], kind);
        assert(b[i] == a[i]);
    }
}
pub proof fn lemma_grew_trans(a: Seq<Seq<u8>>, b: Seq<Seq<u8>>, c: Seq<Seq<u8>>)
    requires grew(a, b), grew(b, c)
    ensures grew(a, c)
{}
/// the send log only grew (prefix preserved)
pub open spec fn grew(old_sent: Seq<Seq<u8>>, new_sent: Seq<Seq<u8>>) -> bool {
    old_sent.len() <= new_sent.len() && forall|i: int| 0 <= i < old_sent.len() ==> #[trigger] new_sent[i] == old_sent[i]
}
// ---- C08: fragments as plain data, their concatenation, and two small lemmas ----
pub struct Frag { pub number: u8, pub payload: Seq<u8> }
pub open spec fn frags_of(v: Seq<SplitPacket>) -> Seq<Frag> { Seq::new(v.len(), |i: int| Frag { number: v[i].number, payload: v[i].payload@ }) }
pub open spec fn join_frags(s: Seq<Frag>) -> Seq<u8>
    decreases s.len()
{
    if s.len() == 0 { Seq::empty() } else { join_frags(s.drop_last()) + s.last().payload }
}
pub proof fn lemma_join_push(s: Seq<Frag>, f: Frag)
    ensures join_frags(s.push(f)) == join_frags(s) + f.payload
{
    assert(s.push(f).drop_last() =~= s);
}
pub proof fn lemma_frags_push(v: Seq<SplitPacket>, p: SplitPacket)
    ensures frags_of(v.push(p)) == frags_of(v).push(Frag { number: p.number, payload: p.payload@ })
{
    assert(frags_of(v.push(p)) =~= frags_of(v).push(Frag { number: p.number, payload: p.payload@ }));
}
impl ValveProtocol {
/*@ fn file=crates/lib/src/protocols/valve/protocol.rs impl="impl ValveProtocol" name=receive props=C01,C13,C02,C08
use R16:all R17 R18 R8:sort_by_field R8:extend_vec
fn_attrs {
#[verifier::loop_isolation(false)]
}
spec {
    requires buffer_size <= 65535,
    ensures
        final(self).socket.sent() == old(self).socket.sent(), final(self).socket.attempts() == old(self).socket.attempts(),
        final(self).retry_count == old(self).retry_count,
        final(self).socket.pending() <= old(self).socket.pending(),
        final(self).socket.recvd() >= old(self).socket.recvd(),
        r is Ok ==> final(self).socket.recvd() >= old(self).socket.recvd() + 1
                 && final(self).socket.pending() < old(self).socket.pending(),
}
body_start {
    broadcast use group_alloc, axiom_default_vec_u8;
}
loop 1 {
    invariant
        self.socket.sent() == old(self).socket.sent(), self.retry_count == old(self).retry_count, self.socket.attempts() == old(self).socket.attempts(),
        self.socket.recvd() >= old(self).socket.recvd() + 1, self.socket.pending() < old(self).socket.pending(),
        // C08: one fragment is read per iteration, whatever its number
        chunk_packets@.len() == verif_it1.index@,
}
before "let mut first_payload = Some(std::mem::take(&mut main_packet.payload));" {
    // PROPERTY ASSERTIONS (C08; plain statements): every fragment announced by the first datagram has been read (no early exit
    // on a "last" fragment), and from here on the arrival order is gone: the chunks are ordered by fragment number
    assert(main_packet.total >= 1 ==> chunk_packets@.len() == main_packet.total - 1);
    assert(sorted_by_number(chunk_packets@));
    let ghost cs = chunk_packets@;
    let ghost first = Frag { number: main_packet.number, payload: main_packet.payload@ };
    let ghost mut placed: Seq<Frag> = Seq::empty();
    let ghost mut k: int = -1;
}
loop 2 {
    invariant
        self.socket.sent() == old(self).socket.sent(), self.retry_count == old(self).retry_count, self.socket.attempts() == old(self).socket.attempts(),
        self.socket.recvd() >= old(self).socket.recvd() + 1, self.socket.pending() < old(self).socket.pending(),
        // C08: the payload assembled so far is the concatenation of `placed`, which is the first verif_it2.index@ chunks in number
        // order with the first-arrived fragment inserted at position k once a chunk with a higher number has been met
        0 <= verif_it2.index@ <= cs.len(), cs == chunk_packets@, sorted_by_number(cs),
        main_packet.number == first.number,
        main_packet.payload@ == join_frags(placed),
        first_payload is Some <==> k < 0,
        first_payload is Some ==> first_payload->Some_0@ == first.payload && placed == frags_of(cs.subrange(0, verif_it2.index@ as int))
            && forall|j: int| 0 <= j < verif_it2.index@ ==> (#[trigger] cs[j]).number <= first.number,
        k >= 0 ==> k < verif_it2.index@ && placed == frags_of(cs.subrange(0, k)).push(first) + frags_of(cs.subrange(k, verif_it2.index@ as int))
            && cs[k].number > first.number && forall|j: int| 0 <= j < k ==> (#[trigger] cs[j]).number <= first.number,
}
before "if chunk_packet.number > main_packet.number {" {
    let ghost idx = verif_it2.index@ as int;
    proof {
        assert(chunk_packet == cs[idx]);
        assert(cs.subrange(0, idx + 1) =~= cs.subrange(0, idx).push(cs[idx]));
        lemma_frags_push(cs.subrange(0, idx), cs[idx]);
        if k >= 0 {
            assert(cs.subrange(k, idx + 1) =~= cs.subrange(k, idx).push(cs[idx]));
            lemma_frags_push(cs.subrange(k, idx), cs[idx]);
        }
    }
}
after "idiom_extend_vec(&mut main_packet.payload, chunk_packet.payload);" {
    proof {
        let f = Frag { number: cs[idx].number, payload: cs[idx].payload@ };
        if k < 0 && cs[idx].number > first.number {
            k = idx;
            assert(cs.subrange(idx, idx) =~= Seq::<SplitPacket>::empty());
            assert(frags_of(cs.subrange(idx, idx)) =~= Seq::<Frag>::empty());
            lemma_join_push(placed, first);
            placed = placed.push(first);
            assert(placed =~= frags_of(cs.subrange(0, k)).push(first) + frags_of(cs.subrange(k, idx)));
        }
        lemma_join_push(placed, f);
        placed = placed.push(f);
        if k >= 0 {
            assert(placed =~= frags_of(cs.subrange(0, k)).push(first) + frags_of(cs.subrange(k, idx + 1)));
        }
    }
}
before "let payload = main_packet.get_payload()?;" {
    // ghost bookkeeping: if no chunk with a higher number was met, the first-arrived fragment belongs at the end
    let ghost before_tail = placed;
    proof {
        assert(cs.subrange(0, cs.len() as int) =~= cs);
        if k < 0 {
            lemma_join_push(placed, first);
            placed = placed.push(first);
            k = cs.len() as int;
            assert(cs.subrange(k, cs.len() as int) =~= Seq::<SplitPacket>::empty());
            assert(frags_of(cs.subrange(k, cs.len() as int)) =~= Seq::<Frag>::empty());
        }
        assert(forall|j: int| k <= j < cs.len() ==> (#[trigger] cs[j]).number > first.number) by {
            assert(forall|j: int| k <= j < cs.len() ==> cs[k].number <= (#[trigger] cs[j]).number);
        }
    }
    // PROPERTY ASSERTIONS (C08; plain statements): the assembled payload is the concatenation, in ascending fragment number, of
    // ALL fragments: the chunks sorted by number with the first-arrived fragment at its place.  It depends on the set of
    // fragments only, not on the arrival order.
    assert(main_packet.payload@ == join_frags(placed));
    assert(placed == frags_of(cs.subrange(0, k)).push(first) + frags_of(cs.subrange(k, cs.len() as int)));
    assert(forall|j: int| 0 <= j < k ==> (#[trigger] cs[j]).number <= first.number);
    assert(forall|j: int| k <= j < cs.len() ==> (#[trigger] cs[j]).number > first.number);
}
@*/

// C09: the first datagram is the request; after every 0x41 ('A') reply exactly one datagram is sent, which carries
// the challenge bytes of that reply (A2S_INFO: after the default payload); nothing else is sent.
/*@ fn file=crates/lib/src/protocols/valve/protocol.rs impl="impl ValveProtocol" name=get_request_data_impl props=C09,C01,C13,C10
use R8:concat2 R21:Request@crates/lib/src/protocols/valve/types.rs
fn_attrs {
#[verifier::loop_isolation(false)]
}
spec {
    ensures
        final(self).retry_count == old(self).retry_count,
        // at least the request itself was (tried to be) sent, and every send is a well-formed request of this kind
        r is Ok ==> final(self).socket.sent().len() >= old(self).socket.sent().len() + 1
                 && final(self).socket.sent()[old(self).socket.sent().len() as int] == a2s_request(kind, payload@),
        // C13: requests sent <= 1 + datagrams received
        final(self).socket.sent().len() - old(self).socket.sent().len() <= 1 + (final(self).socket.recvd() - old(self).socket.recvd()),
        // C09/C11: nothing but requests of this kind is ever sent
        grew(old(self).socket.sent(), final(self).socket.sent()),
        only_kind_since(final(self).socket.sent(), old(self).socket.sent().len() as int, kind),
        // the request is always attempted
        attempted(old(self).socket.attempts(), final(self).socket.attempts(), kind),
}
body_start {
    broadcast use lemma_dec_enc_u32, lemma_enc_len_u32;
    let ghost att0 = self.socket.attempts();
    let ghost sent0 = self.socket.sent();
    let ghost recvd0 = self.socket.recvd();
    proof { lemma_be_ffffffff(); }
}
loop 1 {
    invariant
        self.retry_count == old(self).retry_count,
        self.socket.sent().len() >= sent0.len() + 1,
        self.socket.sent()[sent0.len() as int] == a2s_request(kind, payload@),
        self.socket.sent().len() - sent0.len() <= (self.socket.recvd() - recvd0),
        grew(sent0, self.socket.sent()), only_kind_since(self.socket.sent(), sent0.len() as int, kind),
        attempted(att0, self.socket.attempts(), kind),
    decreases self.socket.pending(),
}
before "self.socket.send(&request_initial_packet)?;" {
    proof {
        assert(request_initial_packet@ == a2s_request(kind, payload@)); assert(is_req_of_kind(request_initial_packet@, kind));
        lemma_has_kind_push(att0, request_initial_packet@, kind);
    }
}
after "self.socket.send(&request_initial_packet)?;" {
    proof {
        assert(self.socket.attempts()[att0.len() as int] == request_initial_packet@);
        assert(self.socket.sent() == sent0.push(request_initial_packet@));
        assert(request_initial_packet@ == a2s_request(kind, payload@));
        assert(is_req_of_kind(request_initial_packet@, kind));
        assert(only_kind_since(self.socket.sent(), sent0.len() as int, kind));
    }
}
after "self.socket.send(&challenge_packet)?;" {
    proof {
        assert(is_req_of_kind(challenge_packet@, kind));
        assert(only_kind_since(self.socket.sent(), sent0.len() as int, kind));
    }
}
before "self.socket.send(&challenge_packet)?;" {
    proof { lemma_has_kind_push(self.socket.attempts(), challenge_packet@, kind); lemma_grew_trans(att0, self.socket.attempts(), self.socket.attempts().push(challenge_packet@)); }
    // challenge echo: the datagram about to be sent is the request of the same kind carrying exactly the bytes of the
    // challenge reply just received
    assert(challenge_packet@ == a2s_request(kind, if kind == 0x54u8 { default_payload(Request::Info) + challenge@ } else { challenge@ }));
}
@*/
}

// ---------------- A2S_INFO, obsolete GoldSrc layout (Valve wiki "Obsolete GoldSource Response") ----------------
// (the address "ip:port" is written as its first byte + the remaining bytes: the parser skips one byte before reading it)
// payload after the 'm' kind byte: Address, Name, Map, Folder, Game strings; Players, Max, Protocol bytes; Server type
// 'D'/'L'/'P'; Environment 'L'/'W'; Visibility; Mod; [Link, Download Link strings, NULL byte, Version long, Size long,
// Type byte, DLL byte]; VAC; Bots
pub struct GoldInfo {
    pub addr_first: u8, pub addr_rest: Seq<char>, pub name: Seq<char>, pub map: Seq<char>, pub folder: Seq<char>, pub game: Seq<char>,
    pub players: u8, pub max_players: u8, pub protocol: u8, pub server_type: u8, pub environment: u8, pub visibility: u8,
    pub is_mod: u8, pub link: Seq<char>, pub download_link: Seq<char>, pub version: u32, pub size: u32, pub mod_type: u8, pub dll: u8,
    pub vac: u8, pub bots: u8,
}
pub open spec fn enc_gold_mod(s: GoldInfo, tail: Seq<u8>) -> Seq<u8> {
    if s.is_mod == 1 {
        rn!(cstr(s.link); cstr(s.download_link); seq![0u8]; enc_u32(true, s.version); enc_u32(true, s.size); seq![s.mod_type]; seq![s.dll]; tail)
    } else { tail }
}
pub open spec fn enc_gold_info(s: GoldInfo) -> Seq<u8> {
    rn!(seq![s.addr_first]; cstr(s.addr_rest); cstr(s.name); cstr(s.map); cstr(s.folder); cstr(s.game); seq![s.players]; seq![s.max_players];
        seq![s.protocol]; seq![s.server_type]; seq![s.environment]; seq![s.visibility]; seq![s.is_mod];
        enc_gold_mod(s, rn!(seq![s.vac]; seq![s.bots]; Seq::empty())))
}
pub open spec fn gold_valid(s: GoldInfo) -> bool {
    no_nul(s.addr_rest) && no_nul(s.name) && no_nul(s.map) && no_nul(s.folder) && no_nul(s.game) && no_nul(s.link) && no_nul(s.download_link)
    && (s.server_type == 68 || s.server_type == 76 || s.server_type == 80) && (s.environment == 76 || s.environment == 87)
}
pub open spec fn gold_server(b: u8) -> Server { if b == 68 { Server::Dedicated } else if b == 76 { Server::NonDedicated } else { Server::TV } }
pub open spec fn gold_env(b: u8) -> Environment { if b == 76 { Environment::Linux } else { Environment::Windows } }

impl ValveProtocol {
/*@ fn file=crates/lib/src/protocols/valve/protocol.rs impl="impl ValveProtocol" name=get_goldsrc_server_info props=C02,C01
use R2
spec {
    requires old(buffer).wf(),
    ensures
        final(buffer).wf(), final(buffer).bytes() == old(buffer).bytes(),
        // left inverse of the documented layout (the address is "ip:port", never empty: see the known finding for "")
        forall|s: GoldInfo| gold_valid(s) && s.addr_first != 0
            && old(buffer).rest() == #[trigger] enc_gold_info(s)
            ==> r is Ok
                && r->Ok_0.name@ == s.name && r->Ok_0.map@ == s.map && r->Ok_0.folder@ == s.folder && r->Ok_0.game_mode@ == s.game
                && r->Ok_0.players_online == s.players && r->Ok_0.players_maximum == s.max_players && r->Ok_0.protocol_version == s.protocol
                && r->Ok_0.server_type == gold_server(s.server_type) && r->Ok_0.environment_type == gold_env(s.environment)
                && r->Ok_0.has_password == (s.visibility == 1) && r->Ok_0.is_mod == (s.is_mod == 1)
                && r->Ok_0.vac_secured == (s.vac == 1) && r->Ok_0.players_bots == s.bots
                && r->Ok_0.appid == 0 && r->Ok_0.the_ship is None && r->Ok_0.extra_data is None && r->Ok_0.game_version@.len() == 0
                && (s.is_mod == 1 ==> r->Ok_0.mod_data is Some
                        && r->Ok_0.mod_data->Some_0.link@ == s.link && r->Ok_0.mod_data->Some_0.download_link@ == s.download_link
                        && r->Ok_0.mod_data->Some_0.version == s.version && r->Ok_0.mod_data->Some_0.size == s.size
                        && r->Ok_0.mod_data->Some_0.multiplayer_only == (s.mod_type == 1) && r->Ok_0.mod_data->Some_0.has_own_dll == (s.dll == 1))
                && (s.is_mod != 1 ==> r->Ok_0.mod_data is None),
}
body_start {
    broadcast use group_cstr, group_wire;
}
@*/
}

/// outcome of one (retried) request/response exchange: the reply payload after the kind byte, or the error kind.
/// Uninterpreted: it stands for whatever the network does; the parsers are specified relative to it.
pub uninterp spec fn a2s_exchange(p: ValveProtocol, engine: Engine, protocol: u8, kind: u8, payload: Seq<u8>) -> Result<Seq<u8>, GDErrorKind>;
pub open spec fn req_code(k: Request) -> u8 { match k { Request::Info => 0x54u8, Request::Players => 0x55u8, Request::Rules => 0x56u8 } }
pub open spec fn a2s_reply(p: ValveProtocol, engine: Engine, protocol: u8, k: Request) -> Result<Seq<u8>, GDErrorKind> {
    a2s_exchange(p, engine, protocol, req_code(k), default_payload(k))
}
// enum-to-integer cast of a `Request` value (Verus has no exec enum casts); spec checked by Kani (valve_request_codes)
#[verifier::external_body]
pub fn idiom_request_as_u8(kind: Request) -> (r: u8)
    ensures r == req_code(kind)
{ kind as u8 }
impl ValveProtocol {
/*@ fn file=crates/lib/src/protocols/valve/protocol.rs impl="impl ValveProtocol" name=get_request_data props=C10,C01 assume=kani:retry_wiring_valve
spec {
    ensures
        final(self).retry_count == old(self).retry_count,
        r is Ok <==> a2s_exchange(*old(self), *engine, protocol, kind, payload@) is Ok,
        r is Ok ==> r->Ok_0@ == a2s_exchange(*old(self), *engine, protocol, kind, payload@)->Ok_0,
        r is Err ==> r->Err_0.kind == a2s_exchange(*old(self), *engine, protocol, kind, payload@)->Err_0,
        attempted(old(self).socket.attempts(), final(self).socket.attempts(), kind),
        grew(old(self).socket.sent(), final(self).socket.sent()),
        only_kind_since(final(self).socket.sent(), old(self).socket.sent().len() as int, kind),
}
@*/
/*@ fn file=crates/lib/src/protocols/valve/protocol.rs impl="impl ValveProtocol" name=get_kind_request_data props=C09,C01
subst "kind as u8" {
    idiom_request_as_u8(kind)
}
spec {
    ensures
        final(self).retry_count == old(self).retry_count,
        r is Ok <==> a2s_reply(*old(self), *engine, protocol, kind) is Ok,
        r is Ok ==> r->Ok_0@ == a2s_reply(*old(self), *engine, protocol, kind)->Ok_0,
        r is Err ==> r->Err_0.kind == a2s_reply(*old(self), *engine, protocol, kind)->Err_0,
        attempted(old(self).socket.attempts(), final(self).socket.attempts(), req_code(kind)),
        grew(old(self).socket.sent(), final(self).socket.sent()),
        only_kind_since(final(self).socket.sent(), old(self).socket.sent().len() as int, req_code(kind)),
}
@*/
}

// ---------------- A2S_INFO, Source layout (Valve wiki "A2S_INFO / Response Format") ----------------
// payload after the 'I' kind byte: Protocol; Name, Map, Folder, Game strings; ID short; Players, Max, Bots; Server type;
// Environment; Visibility; VAC; [The Ship: Mode, Witnesses, Duration]; Version string; [EDF byte; 0x80 Port short;
// 0x10 SteamID u64; 0x40 SourceTV port short + name string; 0x20 Keywords string; 0x01 GameID u64]
pub struct SrcInfo {
    pub protocol: u8, pub name: Seq<char>, pub map: Seq<char>, pub folder: Seq<char>, pub game: Seq<char>, pub id: u16,
    pub players: u8, pub max_players: u8, pub bots: u8, pub server_type: u8, pub environment: u8, pub visibility: u8, pub vac: u8,
    pub ship_mode: u8, pub ship_witnesses: u8, pub ship_duration: u8,
    pub version: Seq<char>,
    pub has_edf: bool, pub edf: u8, pub port: u16, pub steam_id: u64, pub tv_port: u16, pub tv_name: Seq<char>, pub keywords: Seq<char>, pub game_id: u64,
}
pub open spec fn is_ship(engine: Engine) -> bool { engine == Engine::Source(Some((2400u32, None::<u32>))) }
pub open spec fn enc_edf_01(s: SrcInfo, tail: Seq<u8>) -> Seq<u8> { if s.edf & 0x01 > 0 { cat(enc_u64(true, s.game_id), tail) } else { tail } }
pub open spec fn enc_edf_20(s: SrcInfo, tail: Seq<u8>) -> Seq<u8> { if s.edf & 0x20 > 0 { cat(cstr(s.keywords), enc_edf_01(s, tail)) } else { enc_edf_01(s, tail) } }
pub open spec fn enc_edf_40(s: SrcInfo, tail: Seq<u8>) -> Seq<u8> { if s.edf & 0x40 > 0 { rn!(enc_u16(true, s.tv_port); cstr(s.tv_name); enc_edf_20(s, tail)) } else { enc_edf_20(s, tail) } }
pub open spec fn enc_edf_10(s: SrcInfo, tail: Seq<u8>) -> Seq<u8> { if s.edf & 0x10 > 0 { cat(enc_u64(true, s.steam_id), enc_edf_40(s, tail)) } else { enc_edf_40(s, tail) } }
pub open spec fn enc_edf_80(s: SrcInfo, tail: Seq<u8>) -> Seq<u8> { if s.edf & 0x80 > 0 { cat(enc_u16(true, s.port), enc_edf_10(s, tail)) } else { enc_edf_10(s, tail) } }
pub open spec fn enc_edf(s: SrcInfo) -> Seq<u8> { if s.has_edf { cat(seq![s.edf], enc_edf_80(s, Seq::empty())) } else { Seq::empty() } }
pub open spec fn enc_ship(s: SrcInfo, engine: Engine, tail: Seq<u8>) -> Seq<u8> {
    if is_ship(engine) { rn!(seq![s.ship_mode]; seq![s.ship_witnesses]; seq![s.ship_duration]; tail) } else { tail }
}
pub open spec fn enc_src_info(s: SrcInfo, engine: Engine) -> Seq<u8> {
    rn!(seq![s.protocol]; cstr(s.name); cstr(s.map); cstr(s.folder); cstr(s.game); enc_u16(true, s.id); seq![s.players]; seq![s.max_players]; seq![s.bots];
        seq![s.server_type]; seq![s.environment]; seq![s.visibility]; seq![s.vac];
        enc_ship(s, engine, cat(cstr(s.version), enc_edf(s))))
}
pub open spec fn lower(b: u8) -> u8 { if 65 <= b <= 90 { (b + 32) as u8 } else { b } }
pub open spec fn src_valid(s: SrcInfo) -> bool {
    no_nul(s.name) && no_nul(s.map) && no_nul(s.folder) && no_nul(s.game) && no_nul(s.version) && no_nul(s.tv_name) && no_nul(s.keywords)
    && (lower(s.server_type) == 100 || lower(s.server_type) == 108 || lower(s.server_type) == 112)
    && (lower(s.environment) == 108 || lower(s.environment) == 119 || lower(s.environment) == 109 || lower(s.environment) == 111)
}
pub open spec fn src_server(b: u8) -> Server { if lower(b) == 100 { Server::Dedicated } else if lower(b) == 108 { Server::NonDedicated } else { Server::TV } }
pub open spec fn src_env(b: u8) -> Environment { if lower(b) == 108 { Environment::Linux } else if lower(b) == 119 { Environment::Windows } else { Environment::Mac } }
/// the expected extra-data section for a state
pub open spec fn edf_matches(e: ExtraData, s: SrcInfo) -> bool {
    (e.port == if s.edf & 0x80 > 0 { Some(s.port) } else { None::<u16> })
    && (e.steam_id == if s.edf & 0x10 > 0 { Some(s.steam_id) } else { None::<u64> })
    && (e.tv_port == if s.edf & 0x40 > 0 { Some(s.tv_port) } else { None::<u16> })
    && (if s.edf & 0x40 > 0 { e.tv_name is Some && e.tv_name->Some_0@ == s.tv_name } else { e.tv_name is None })
    && (if s.edf & 0x20 > 0 { e.keywords is Some && e.keywords->Some_0@ == s.keywords } else { e.keywords is None })
    && (e.game_id == if s.edf & 0x01 > 0 { Some(s.game_id) } else { None::<u64> })
}

impl ValveProtocol {
/*@ fn file=crates/lib/src/protocols/valve/protocol.rs impl="impl ValveProtocol" name=get_server_info props=C02,C01
use R18
fn_attrs {
#[verifier::rlimit(60)]
}
spec {
    ensures
        final(self).retry_count == old(self).retry_count,
        grew(old(self).socket.sent(), final(self).socket.sent()),
        only_kind_since(final(self).socket.sent(), old(self).socket.sent().len() as int, 0x54u8),
        attempted(old(self).socket.attempts(), final(self).socket.attempts(), 0x54u8),
        a2s_reply(*old(self), *engine, 0, Request::Info) is Err ==> r is Err && r->Err_0.kind == a2s_reply(*old(self), *engine, 0, Request::Info)->Err_0,
        // Source layout (also used for GoldSrc(false)): left inverse of the documented encoding
        forall|s: SrcInfo| !(*engine == Engine::GoldSrc(true)) && src_valid(s)
            && a2s_reply(*old(self), *engine, 0, Request::Info) == Ok::<Seq<u8>, GDErrorKind>(#[trigger] enc_src_info(s, *engine))
            ==> r is Ok
                && r->Ok_0.protocol_version == s.protocol && r->Ok_0.name@ == s.name && r->Ok_0.map@ == s.map && r->Ok_0.folder@ == s.folder
                && r->Ok_0.game_mode@ == s.game && r->Ok_0.players_online == s.players && r->Ok_0.players_maximum == s.max_players
                && r->Ok_0.players_bots == s.bots && r->Ok_0.server_type == src_server(s.server_type) && r->Ok_0.environment_type == src_env(s.environment)
                && r->Ok_0.has_password == (s.visibility == 1) && r->Ok_0.vac_secured == (s.vac == 1)
                && (is_ship(*engine) ==> r->Ok_0.the_ship == Some(TheShip { mode: s.ship_mode, witnesses: s.ship_witnesses, duration: s.ship_duration }))
                && (!is_ship(*engine) ==> r->Ok_0.the_ship is None)
                && r->Ok_0.game_version@ == s.version
                && (s.has_edf ==> r->Ok_0.extra_data is Some && edf_matches(r->Ok_0.extra_data->Some_0, s))
                && (!s.has_edf ==> r->Ok_0.extra_data is None)
                // app id: the 16-bit ID, superseded by the low 24 bits of the 64-bit GameID when present
                && r->Ok_0.appid == (if s.has_edf && s.edf & 0x01 > 0 { (s.game_id & 0xFF_FFFF) as u32 } else { s.id as u32 })
                && !r->Ok_0.is_mod && r->Ok_0.mod_data is None,
        // obsolete GoldSrc layout when enforced
        forall|s: GoldInfo| *engine == Engine::GoldSrc(true) && gold_valid(s) && s.addr_first != 0
            && a2s_reply(*old(self), *engine, 0, Request::Info) == Ok::<Seq<u8>, GDErrorKind>(#[trigger] enc_gold_info(s))
            ==> r is Ok && r->Ok_0.name@ == s.name && r->Ok_0.map@ == s.map && r->Ok_0.players_online == s.players
                && r->Ok_0.players_maximum == s.max_players && r->Ok_0.players_bots == s.bots,
}
body_start {
    broadcast use group_cstr, group_wire;
}
after "let gid" {
    proof {
        assert((1u64 << 24) == 0x100_0000u64) by (bit_vector);
    }
}
@*/
}

// ---------------- A2S_PLAYER (Valve wiki): Players byte; per player: Index byte, Name string, Score long, Duration float;
// The Ship: Deaths long, Money long ----------------
pub struct PlayerSt { pub index: u8, pub name: Seq<char>, pub score: i32, pub duration: f32, pub deaths: u32, pub money: u32 }
pub open spec fn enc_players(ps: Seq<PlayerSt>, i: int, ship: bool, tail: Seq<u8>) -> Seq<u8>
    decreases ps.len() - i
{
    if i < 0 || i >= ps.len() { tail } else {
        rn!(seq![ps[i].index]; cstr(ps[i].name); enc_i32(true, ps[i].score); enc_f32(true, ps[i].duration);
            if ship { rn!(enc_u32(true, ps[i].deaths); enc_u32(true, ps[i].money); enc_players(ps, i + 1, ship, tail)) }
            else { enc_players(ps, i + 1, ship, tail) })
    }
}
pub open spec fn enc_players_reply(ps: Seq<PlayerSt>, ship: bool) -> Seq<u8> { cat(seq![ps.len() as u8], enc_players(ps, 0, ship, Seq::empty())) }
pub open spec fn players_valid(ps: Seq<PlayerSt>) -> bool { ps.len() <= 255 && forall|j: int| 0 <= j < ps.len() ==> no_nul(#[trigger] ps[j].name) }
pub open spec fn player_matches(p: ServerPlayer, s: PlayerSt, ship: bool) -> bool {
    p.name@ == s.name && p.score == s.score && p.duration == s.duration
    && (ship ==> p.deaths == Some(s.deaths) && p.money == Some(s.money))
    && (!ship ==> p.deaths is None && p.money is None)
}

impl ValveProtocol {
/*@ fn file=crates/lib/src/protocols/valve/protocol.rs impl="impl ValveProtocol" name=get_server_players props=C02,C01,C13
use R16 R17 R18
fn_attrs {
#[verifier::loop_isolation(false)]
}
spec {
    ensures
        final(self).retry_count == old(self).retry_count,
        grew(old(self).socket.sent(), final(self).socket.sent()),
        only_kind_since(final(self).socket.sent(), old(self).socket.sent().len() as int, 0x55u8),
        attempted(old(self).socket.attempts(), final(self).socket.attempts(), 0x55u8),
        a2s_reply(*old(self), *engine, protocol, Request::Players) is Err ==> r is Err && r->Err_0.kind == a2s_reply(*old(self), *engine, protocol, Request::Players)->Err_0,
        forall|ps: Seq<PlayerSt>| players_valid(ps)
            && a2s_reply(*old(self), *engine, protocol, Request::Players) == Ok::<Seq<u8>, GDErrorKind>(#[trigger] enc_players_reply(ps, is_ship(*engine)))
            ==> r is Ok && r->Ok_0@.len() == ps.len()
                && forall|j: int| 0 <= j < ps.len() ==> player_matches(#[trigger] r->Ok_0@[j], ps[j], is_ship(*engine)),
}
body_start {
    broadcast use group_cstr, group_wire, group_alloc;
}
loop 1 {
    invariant
        buffer.wf(), buffer.bytes() == data@, self.retry_count == old(self).retry_count,
        players@.len() == verif_it1.index@,
        forall|ps: Seq<PlayerSt>| players_valid(ps) && data@ == #[trigger] enc_players_reply(ps, is_ship(*engine))
            ==> count == ps.len() && buffer.rest() == enc_players(ps, verif_it1.index@ as int, is_ship(*engine), Seq::empty())
                && forall|j: int| 0 <= j < verif_it1.index@ ==> player_matches(#[trigger] players@[j], ps[j], is_ship(*engine)),
}
@*/
}

// ---------------- A2S_RULES (Valve wiki): Rules short; per rule: Name string, Value string ----------------
pub open spec fn enc_rules(rs: Seq<(Seq<char>, Seq<char>)>, i: int, tail: Seq<u8>) -> Seq<u8>
    decreases rs.len() - i
{
    if i < 0 || i >= rs.len() { tail } else { rn!(cstr(rs[i].0); cstr(rs[i].1); enc_rules(rs, i + 1, tail)) }
}
pub open spec fn enc_rules_reply(rs: Seq<(Seq<char>, Seq<char>)>) -> Seq<u8> { cat(enc_u16(true, rs.len() as u16), enc_rules(rs, 0, Seq::empty())) }
pub open spec fn rules_valid(rs: Seq<(Seq<char>, Seq<char>)>) -> bool {
    rs.len() <= 65535 && forall|j: int| 0 <= j < rs.len() ==> no_nul(#[trigger] rs[j].0) && no_nul(rs[j].1)
}
/// the map obtained by inserting the pairs in order (a later duplicate replaces an earlier one)
pub open spec fn map_of(ins: Seq<(String, String)>) -> Map<String, String>
    decreases ins.len()
{
    if ins.len() == 0 { Map::empty() } else { map_of(ins.drop_last()).insert(ins.last().0, ins.last().1) }
}

impl ValveProtocol {
/*@ fn file=crates/lib/src/protocols/valve/protocol.rs impl="impl ValveProtocol" name=get_server_rules props=C02,C01,C13
use R16 R17 R18
fn_attrs {
#[verifier::loop_isolation(false)]
}
spec {
    ensures
        final(self).retry_count == old(self).retry_count,
        grew(old(self).socket.sent(), final(self).socket.sent()),
        only_kind_since(final(self).socket.sent(), old(self).socket.sent().len() as int, 0x56u8),
        attempted(old(self).socket.attempts(), final(self).socket.attempts(), 0x56u8),
        a2s_reply(*old(self), *engine, protocol, Request::Rules) is Err ==> r is Err && r->Err_0.kind == a2s_reply(*old(self), *engine, protocol, Request::Rules)->Err_0,
        forall|rs: Seq<(Seq<char>, Seq<char>)>| rules_valid(rs)
            && a2s_reply(*old(self), *engine, protocol, Request::Rules) == Ok::<Seq<u8>, GDErrorKind>(#[trigger] enc_rules_reply(rs))
            ==> r is Ok && exists|ins: Seq<(String, String)>| ins.len() == rs.len()
                    && (forall|j: int| 0 <= j < rs.len() ==> (#[trigger] ins[j]).0@ == rs[j].0 && ins[j].1@ == rs[j].1)
                    && (*engine != Engine::Source(Some((632_360u32, None::<u32>))) ==> r->Ok_0@ == map_of(ins)),
}
body_start {
    broadcast use group_cstr, group_wire, group_alloc, vstd::std_specs::hash::group_hash_axioms, axiom_string_obeys_key_model;
    let ghost mut ins: Seq<(String, String)> = Seq::empty();
}
before "rules.insert(name, value);" {
    let ghost prev = ins;
    proof { ins = ins.push((name, value)); assert(ins.drop_last() =~= prev); assert(ins.last() == (name, value)); }
}
loop 1 {
    invariant
        buffer.wf(), buffer.bytes() == data@, self.retry_count == old(self).retry_count,
        ins.len() == verif_it1.index@, rules@ == map_of(ins),
        forall|rs: Seq<(Seq<char>, Seq<char>)>| rules_valid(rs) && data@ == #[trigger] enc_rules_reply(rs)
            ==> count == rs.len() && buffer.rest() == enc_rules(rs, verif_it1.index@ as int, Seq::empty())
                && forall|j: int| 0 <= j < verif_it1.index@ ==> (#[trigger] ins[j]).0@ == rs[j].0 && ins[j].1@ == rs[j].1,
}
@*/
}

// ---------------- C11: gather toggles and app-id check (get_response) ----------------
/*@ item file=crates/lib/src/protocols/types.rs kind=enum name=GatherToggle
attrs {
#[derive(PartialEq, Eq, Structural, Clone, Copy)]
}
@*/
pub mod protocols { pub mod types { pub use crate::GatherToggle; } }
/*@ item file=crates/lib/src/protocols/valve/types.rs kind=struct name=GatheringSettings @*/
/*@ item file=crates/lib/src/protocols/valve/types.rs kind=struct name=Response @*/
// std::net::SocketAddr and TimeoutSettings are opaque (contracts/net_model.rs); constructing the client is foreign code
impl ValveProtocol {
    // assumed: a fresh client has sent nothing yet
    #[verifier::external_body]
    pub fn new(address: &SocketAddr, timeout_settings: Option<TimeoutSettings>) -> (r: GDResult<Self>)
        ensures r is Ok ==> r->Ok_0.socket.sent() == Seq::<Seq<u8>>::empty()
    { unimplemented!() }
}
/// no datagram of the given kind in the log
pub open spec fn never_sent(sent: Seq<Seq<u8>>, kind: u8) -> bool { forall|i: int| 0 <= i < sent.len() ==> !is_req_of_kind(#[trigger] sent[i], kind) }
pub open spec fn expected_app(engine: Engine, appid: u32) -> bool {
    match engine {
        Engine::Source(Some((a, d))) => a == appid || d == Some(appid),
        _ => true,     // Source(None) and GoldSrc carry no expectation
    }
}
pub proof fn lemma_kinds_distinct(d: Seq<u8>, k1: u8, k2: u8)
    requires is_req_of_kind(d, k1), k1 != k2
    ensures !is_req_of_kind(d, k2)
{
    let p1 = choose|p: Seq<u8>| d == a2s_request(k1, p);
    if is_req_of_kind(d, k2) {
        let p2 = choose|p: Seq<u8>| d == a2s_request(k2, p);
        assert(a2s_request(k1, p1)[4] == k1);
        assert(a2s_request(k2, p2)[4] == k2);
    }
}

/*@ fn file=crates/lib/src/protocols/valve/protocol.rs name=get_response props=C11,C01,C02
use R1 R4:maybe_gather@crates/lib/src/utils.rs
body_start {
    broadcast use lemma_has_kind_grew;
}
spec {
    ensures
        // app-id check: with checking on, a response is only returned for an expected app id, otherwise BadGame ...
        r is Ok && gather_settings.check_app_id ==> expected_app(engine, r->Ok_0.info.appid),
        // sections set to Skip are absent
        r is Ok && gather_settings.players == GatherToggle::Skip ==> r->Ok_0.players is None,
        r is Ok && gather_settings.rules == GatherToggle::Skip ==> r->Ok_0.rules is None,
        // sections set to Enforce are present in every returned response (their failure fails the query)
        r is Ok && gather_settings.players == GatherToggle::Enforce ==> r->Ok_0.players is Some,
        r is Ok && gather_settings.rules == GatherToggle::Enforce ==> r->Ok_0.rules is Some,
}
tail {
    proof {
        // Skip => that section was never requested on the wire (the log holds only info requests and the sections asked for)
        let sent = client.socket.sent();
        assert forall|i: int| 0 <= i < sent.len() implies
            (gather_settings.players == GatherToggle::Skip ==> !is_req_of_kind(#[trigger] sent[i], 0x55u8))
            && (gather_settings.rules == GatherToggle::Skip ==> !is_req_of_kind(sent[i], 0x56u8)) by {
            if is_req_of_kind(sent[i], 0x54u8) { lemma_kinds_distinct(sent[i], 0x54u8, 0x55u8); lemma_kinds_distinct(sent[i], 0x54u8, 0x56u8); }
            if is_req_of_kind(sent[i], 0x55u8) { lemma_kinds_distinct(sent[i], 0x55u8, 0x56u8); }
            if is_req_of_kind(sent[i], 0x56u8) { lemma_kinds_distinct(sent[i], 0x56u8, 0x55u8); }
        }
    }
    // PROPERTY ASSERTIONS (C11; plain statements, not proof-script steps): a section that is not Skip IS requested,
    // whatever happened to the other section, and a section that is Skip never appears on the wire
    assert(gather_settings.players != GatherToggle::Skip ==> has_kind(client.socket.attempts(), 0x55u8));
    assert(gather_settings.rules != GatherToggle::Skip ==> has_kind(client.socket.attempts(), 0x56u8));
    assert(gather_settings.players == GatherToggle::Skip ==> never_sent(client.socket.sent(), 0x55u8));
    assert(gather_settings.rules == GatherToggle::Skip ==> never_sent(client.socket.sent(), 0x56u8));
}
@*/
//@ body-end
} // verus!
fn main() {}
