//@ unit U-QUAKE props=C05,C01,C13
// Quake 1/2/3 status reply: the player-line loop (crates/lib/src/protocols/quake/client.rs)
#![allow(unused_imports, dead_code, unused_variables, unused_mut, unused_parens)]
use vstd::prelude::*;
use vstd::std_specs::iter::IteratorSpec;
use std::marker::PhantomData;
use std::convert::TryInto;
use std::collections::HashMap;
use std::cmp::Ordering;

verus! {
/*@ import unit=U-BUF @*/
/*@ include path=std_model2.rs @*/
//@ body-begin

// ---- the client trait, reduced to what the loop needs (MODEL of trait QuakeClient of client.rs: the real trait also names the
// request / response headers; how ONE player line is split into fields is the implementors' business and stays abstract) ----
pub trait QuakeClient {
    type Player;
    /// what `parse_player_string` makes of the space-separated tokens of one line
    spec fn parse_line(text: Seq<char>) -> Result<Self::Player, GDErrorKind>;
    // the real trait method (called only inside the assumed helper idiom_quake_line)
    fn parse_player_string(data: std::slice::Iter<&str>) -> GDResult<Self::Player>;
}

/// a line of the status reply: text without LF, then LF
pub open spec fn no_lf(t: Seq<char>) -> bool { forall|i: int| 0 <= i < t.len() ==> t[i] != '\n' }
pub open spec fn line(t: Seq<char>) -> Seq<u8> { utf8_bytes(t).push(0x0Au8) }
// UTF-8 fact (ASSUMED, like axiom_utf8_no_nul): ASCII bytes occur only as the encoding of the same ASCII character
pub broadcast axiom fn axiom_utf8_no_lf(t: Seq<char>)
    requires no_lf(t)
    ensures #![trigger utf8_bytes(t)] no_byte(utf8_bytes(t), 0x0Au8);
pub broadcast proof fn lemma_line_read(txt: Seq<char>, t: Seq<u8>, z: u8)
    requires no_lf(txt)
    ensures
        #![trigger utf8_consumed(cat(line(txt), t), z)]
        #![trigger utf8_ok(cat(line(txt), t), z)]
        z == 0x0Au8 ==> utf8_consumed(cat(line(txt), t), z) == line(txt).len()
                  && utf8_ok(cat(line(txt), t), z)
                  && utf8_txt(cat(line(txt), t), z) == txt,
{
    if z == 0x0Au8 {
        let d: [u8; 1] = [0x0Au8];
        axiom_utf8_no_lf(txt);
        Utf8Decoder::lemma_wire(txt, d, t);
        lemma_cat_is_add(line(txt), t);
    }
}
pub open spec fn enc_lines(ls: Seq<Seq<char>>, i: int, tail: Seq<u8>) -> Seq<u8>
    decreases ls.len() - i
{
    if i < 0 || i >= ls.len() { tail } else { cat(line(ls[i]), enc_lines(ls, i + 1, tail)) }
}
/// a line that is empty or consists of NUL characters only is not a player (the reply ends with a NUL)
pub open spec fn is_blank(t: Seq<char>) -> bool { forall|i: int| 0 <= i < t.len() ==> t[i] == '\0' }
// `data.trim_matches('\0').is_empty()`
#[verifier::external_body]
pub fn idiom_is_blank(data: &String) -> (r: bool)
    ensures r == is_blank(data@)
{ data.trim_matches('\0').is_empty() }

/// the players of the first n lines: one entry per non-blank line, in order
pub open spec fn players_of<C: QuakeClient>(ls: Seq<Seq<char>>, n: int) -> Seq<C::Player>
    decreases n
{
    if n <= 0 { Seq::empty() }
    else if is_blank(ls[n - 1]) { players_of::<C>(ls, n - 1) }
    else { players_of::<C>(ls, n - 1).push(C::parse_line(ls[n - 1])->Ok_0) }
}
pub open spec fn lines_valid<C: QuakeClient>(ls: Seq<Seq<char>>) -> bool {
    forall|j: int| 0 <= j < ls.len() ==> no_lf(#[trigger] ls[j]) && (is_blank(ls[j]) || C::parse_line(ls[j]) is Ok)
}

/*@ fn file=crates/lib/src/protocols/quake/client.rs name=get_players props=C05,C01,C13
use R1 R2
subst "data.trim_matches('\0').is_empty()" {
    idiom_is_blank(&data)
}
cut "let data_split = data.split(' ') ... players.push(Client::parse_player_string(data_iter)?);" {
    helper: fn idiom_quake_line<Client: QuakeClient>(players: &mut Vec<Client::Player>, data: &String) -> (r: GDResult<()>) ensures r is Ok <==> Client::parse_line(data@) is Ok, r is Ok ==> final(players)@ == old(players)@.push(Client::parse_line(data@)->Ok_0), r is Err ==> final(players)@ == old(players)@ && r->Err_0.kind == Client::parse_line(data@)->Err_0;
    call: idiom_quake_line::<Client>(&mut players, &data)?;
    ret: Ok(())
}
spec {
    requires old(bufferer).wf(),
    ensures
        final(bufferer).wf(), final(bufferer).bytes() == old(bufferer).bytes(),
        // C05: one player entry per player line (blank / NUL-only lines are not players), in order: the online count is the
        // number of player lines
        forall|ls: Seq<Seq<char>>| lines_valid::<Client>(ls) && old(bufferer).rest() == #[trigger] enc_lines(ls, 0, Seq::empty())
            ==> r is Ok && r->Ok_0@ == players_of::<Client>(ls, ls.len() as int),
}
body_start {
    broadcast use group_stream, lemma_line_read;
    let ghost mut n: int = 0;
    let ghost rest0 = bufferer.rest();
}
before "let data = bufferer.read_string::<Utf8Decoder>(Some([0x0A]))?;" {
    broadcast use group_stream, lemma_line_read;
    proof {
        assert forall|ls: Seq<Seq<char>>| lines_valid::<Client>(ls) && rest0 == #[trigger] enc_lines(ls, 0, Seq::empty()) implies
            n < ls.len() && bufferer.rest() == cat(line(ls[n]), enc_lines(ls, n + 1, Seq::empty())) by {
            if n >= ls.len() { assert(enc_lines(ls, n, Seq::empty()).len() == 0); }
        }
    }
}
after "let data = bufferer.read_string::<Utf8Decoder>(Some([0x0A]))?;" {
    proof {
        assert forall|ls: Seq<Seq<char>>| lines_valid::<Client>(ls) && rest0 == #[trigger] enc_lines(ls, 0, Seq::empty()) implies
            data@ == ls[n] && bufferer.rest() == enc_lines(ls, n + 1, Seq::empty()) by {}
        n = n + 1;
    }
}
loop 1 {
    invariant
        n >= 0, bufferer.wf(), bufferer.bytes() == old(bufferer).bytes(), rest0 == old(bufferer).rest(),
        forall|ls: Seq<Seq<char>>| lines_valid::<Client>(ls) && rest0 == #[trigger] enc_lines(ls, 0, Seq::empty())
            ==> n <= ls.len() && bufferer.rest() == enc_lines(ls, n, Seq::empty()) && players@ == players_of::<Client>(ls, n),
    decreases bufferer.rest().len(),
}
@*/

//@ body-end
} // verus!
fn main() {}
