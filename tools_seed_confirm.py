#!/usr/bin/env python3
"""Confirm seeded changes myself: in a scratch worktree of /repo HEAD, (a) with the change: the existing suite gives the
baseline results and the demonstration FAILS; (b) without it: the demonstration PASSES.  Writes confirm.json into the seed dir.
usage: tools_seed_confirm.py <seed-dir> [<seed-dir> ...]"""
import json, os, re, shutil, subprocess, sys
WT = '/var/tmp/wt-confirm'
ENV = dict(os.environ, CARGO_NET_OFFLINE='true')

def sh(cmd, cwd=WT, timeout=1800):
    p = subprocess.run(cmd, shell=True, cwd=cwd, env=ENV, capture_output=True, text=True, timeout=timeout)
    return p.returncode, p.stdout + p.stderr

def suite():
    rc, out = sh('cargo test --workspace --offline --no-fail-fast 2>&1')
    res = re.findall(r'test result: (\w+)\. (\d+) passed; (\d+) failed', out)
    failed = sorted(set(re.findall(r'^test (\S+) \.\.\. FAILED', out, re.M)))
    return res, failed

def reset():
    sh('git reset -q --hard HEAD && git clean -fdq crates')

def main():
    subprocess.run(['git', '-C', '/repo', 'worktree', 'remove', '--force', WT], capture_output=True)
    shutil.rmtree(WT, ignore_errors=True)
    subprocess.run(['git', '-C', '/repo', 'worktree', 'add', '-q', '--detach', WT, 'HEAD'], check=True)
    try:
        base = suite()
        print('baseline', base, flush=True)
        for d in sys.argv[1:]:
            rec = {'seed': d, 'baseline': base}
            patch = os.path.join(d, 'patch.diff')
            demo_rs = os.path.join(d, 'demo.rs')
            demo_patch = os.path.join(d, 'demo.patch')
            reset()
            rc, out = sh(f'git apply --3way {patch} 2>&1 || git apply {patch} 2>&1')
            rec['patch_applies'] = rc == 0
            if rc != 0:
                rec['error'] = out[-500:]
            else:
                rec['suite_with_patch'] = suite()
                rec['suite_unchanged_by_patch'] = rec['suite_with_patch'] == base
                if os.path.exists(demo_patch):
                    rc, out = sh(f'git apply {demo_patch} 2>&1')
                    rcd, outd = sh('cargo test --offline -p gamedig --lib verif_demo 2>&1')
                else:
                    shutil.copy(demo_rs, os.path.join(WT, 'crates/lib/tests/verif_demo.rs'))
                    rcd, outd = sh('cargo test --offline -p gamedig --test verif_demo 2>&1')
                rec['demo_fails_with_patch'] = rcd != 0 and ('FAILED' in outd or 'panicked' in outd)
                rec['demo_with_patch_tail'] = outd[-600:]
                reset()
                if os.path.exists(demo_patch):
                    sh(f'git apply {demo_patch} 2>&1')
                    rcd, outd = sh('cargo test --offline -p gamedig --lib verif_demo 2>&1')
                else:
                    shutil.copy(demo_rs, os.path.join(WT, 'crates/lib/tests/verif_demo.rs'))
                    rcd, outd = sh('cargo test --offline -p gamedig --test verif_demo 2>&1')
                rec['demo_passes_without_patch'] = rcd == 0
                rec['demo_without_patch_tail'] = outd[-300:]
            rec['confirmed'] = bool(rec.get('patch_applies') and rec.get('suite_unchanged_by_patch') and rec.get('demo_fails_with_patch') and rec.get('demo_passes_without_patch'))
            json.dump(rec, open(os.path.join(d, 'confirm.json'), 'w'), indent=1)
            print(d, 'CONFIRMED' if rec['confirmed'] else 'NOT CONFIRMED', {k: rec.get(k) for k in ('patch_applies', 'suite_unchanged_by_patch', 'demo_fails_with_patch', 'demo_passes_without_patch')}, flush=True)
    finally:
        subprocess.run(['git', '-C', '/repo', 'worktree', 'remove', '--force', WT], capture_output=True)
        shutil.rmtree(WT, ignore_errors=True)

main()
