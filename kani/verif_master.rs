// Kani harnesses for the byte text of Valve master-server requests (C16 / C09).  Injected add-only (cfg(kani)) at the end of
// services/valve_master_server/service.rs so that the private construct_payload is reachable.
#![allow(dead_code, unused_imports)]
use super::*;
use crate::valve_master_server::{Filter, Region, SearchFilters};

fn any_region() -> (Region, u8) {
    let x: u8 = kani::any();
    match x {
        0 => (Region::UsEast, 0x00), 1 => (Region::UsWest, 0x01), 2 => (Region::AmericaSouth, 0x02), 3 => (Region::Europe, 0x03),
        4 => (Region::Asia, 0x04), 5 => (Region::Australia, 0x05), 6 => (Region::MiddleEast, 0x06), 7 => (Region::Africa, 0x07),
        _ => (Region::Others, 0xFF),
    }
}

/// construct_payload without filters: '1', the region BYTE (also for Others = 0xFF), "ip:port", NUL, and the empty filter NUL.
/// All nine regions; ports 0, 7, 27015 and 65535 (digit strings of every length); each port is its own path.
fn payload_case(port: u16, text: &[u8]) {
    let (region, code) = any_region();
    let got = construct_payload(region, &None, "10.2.3.44", port);
    let ip = b"10.2.3.44";
    assert!(got.len() == 2 + ip.len() + 1 + text.len() + 2);
    assert!(got[0] == 0x31);
    assert!(got[1] == code);
    let mut i = 0;
    while i < ip.len() {
        assert!(got[2 + i] == ip[i]);
        i += 1;
    }
    assert!(got[2 + ip.len()] == b':');
    let mut k = 0;
    while k < text.len() {
        assert!(got[3 + ip.len() + k] == text[k]);
        k += 1;
    }
    assert!(got[3 + ip.len() + text.len()] == 0);
    assert!(got[4 + ip.len() + text.len()] == 0);
    core::mem::forget(got);
}
#[kani::proof]
#[kani::unwind(24)]
fn master_construct_payload() {
    let which: u8 = kani::any();
    match which {
        0 => payload_case(0, b"0"),
        1 => payload_case(7, b"7"),
        2 => payload_case(27015, b"27015"),
        _ => payload_case(65535, b"65535"),
    }
}

fn expect(got: Vec<u8>, want: &[u8]) {
    assert!(got.len() == want.len());
    let mut i = 0;
    while i < want.len() {
        assert!(got[i] == want[i]);
        i += 1;
    }
    core::mem::forget(got);
}

/// every boolean filter: \\name\\0 or \\name\\1 with the names of the Master Server Query Protocol
fn bool_case(f: Filter, name: &[u8], b: bool) {
    let got = f.to_bytes();
    assert!(got.len() == name.len() + 1);
    let mut i = 0;
    while i < name.len() {
        assert!(got[i] == name[i]);
        i += 1;
    }
    assert!(got[name.len()] == if b { b'1' } else { b'0' });
    core::mem::forget(got);
    core::mem::forget(f);
}
#[kani::proof]
#[kani::unwind(24)]
fn master_filter_bool_kinds() {
    let b: bool = kani::any();
    let k: u8 = kani::any();
    match k {
        0 => bool_case(Filter::IsSecured(b), b"\\secure\\", b),
        1 => bool_case(Filter::CanHavePassword(b), b"\\password\\", b),
        2 => bool_case(Filter::CanBeEmpty(b), b"\\empty\\", b),
        3 => bool_case(Filter::IsEmpty(b), b"\\noplayers\\", b),
        4 => bool_case(Filter::CanBeFull(b), b"\\full\\", b),
        5 => bool_case(Filter::RestrictUniqueIP(b), b"\\collapse_addr_hash\\", b),
        6 => bool_case(Filter::Whitelisted(b), b"\\white\\", b),
        7 => bool_case(Filter::SpectatorProxy(b), b"\\proxy\\", b),
        8 => bool_case(Filter::IsDedicated(b), b"\\dedicated\\", b),
        _ => bool_case(Filter::RunsLinux(b), b"\\linux\\", b),
    }
}

/// text filters: \name\<text> (sample text), tags joined by ',' without a trailing comma, app ids in decimal
#[kani::proof]
#[kani::unwind(24)]
fn master_filter_text_kinds() {
    let k: u8 = kani::any();
    kani::assume(k < 9);
    match k {
        0 => expect(Filter::RunsMap(String::from("de_x")).to_bytes(), b"\\map\\de_x"),
        1 => expect(Filter::MatchName(String::from("de_x")).to_bytes(), b"\\name_match\\de_x"),
        2 => expect(Filter::MatchVersion(String::from("de_x")).to_bytes(), b"\\version_match\\de_x"),
        3 => expect(Filter::OnAddress(String::from("de_x")).to_bytes(), b"\\gameaddr\\de_x"),
        4 => expect(Filter::HasGameDir(String::from("de_x")).to_bytes(), b"\\gamedir\\de_x"),
        5 => expect(Filter::HasTags(vec![String::from("a"), String::from("bc")]).to_bytes(), b"\\gametype\\a,bc"),
        6 => expect(Filter::HasTags(Vec::new()).to_bytes(), b""),
        7 => expect(Filter::RunsAppID(440).to_bytes(), b"\\appid\\440"),
        _ => expect(Filter::NotAppID(4294967295).to_bytes(), b"\\napp\\4294967295"),
    }
}
