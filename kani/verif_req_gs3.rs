// GameSpy 3 request framing (C09).  Injected add-only (cfg(kani)) at the end of protocols/gamespy/protocols/three/protocol.rs.
#![allow(dead_code, unused_imports)]
use super::*;

/// RequestPacket::to_bytes == header BE, kind, session id BE, [challenge BE], [payload]: complete (loop-free, all field values)
#[kani::proof]
#[kani::unwind(8)]
fn gs3_request_packet_to_bytes() {
    let header: u16 = kani::any();
    let kind: u8 = kani::any();
    let session_id: u32 = kani::any();
    let challenge: Option<i32> = kani::any();
    let payload: Option<[u8; 4]> = kani::any();
    let b = RequestPacket { header, kind, session_id, challenge, payload }.to_bytes();
    let mut k = 7;
    assert!(b.len() == 7 + (if challenge.is_some() { 4 } else { 0 }) + (if payload.is_some() { 4 } else { 0 }));
    assert!(b[0] == (header >> 8) as u8 && b[1] == header as u8 && b[2] == kind);
    assert!(b[3] == (session_id >> 24) as u8 && b[4] == (session_id >> 16) as u8 && b[5] == (session_id >> 8) as u8 && b[6] == session_id as u8);
    if let Some(c) = challenge {
        let c = c as u32;
        assert!(b[7] == (c >> 24) as u8 && b[8] == (c >> 16) as u8 && b[9] == (c >> 8) as u8 && b[10] == c as u8);
        k = 11;
    }
    if let Some(p) = payload {
        assert!(b[k] == p[0] && b[k + 1] == p[1] && b[k + 2] == p[2] && b[k + 3] == p[3]);
    }
    core::mem::forget(b);
}
