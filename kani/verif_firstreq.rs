// C09: the FIRST datagram / stream write of every protocol client, and where it goes.  Injected add-only (cfg(kani)) at the end of
// crates/lib/src/socket.rs (the transport structs have private fields).  The transport constructors are replaced by recorders that
// check the destination against the harness's expectation and hand back a dummy socket; `send` is replaced by a recorder that
// compares the bytes with the protocol's request and then cuts the path (kani::assume(false)), so nothing after the first write is
// explored.  Reaching the end of a harness means nothing was sent: that is reported as a failure.
#![allow(dead_code, unused_imports, unused_variables, static_mut_refs)]
use super::*;
use std::net::{IpAddr, Ipv4Addr, SocketAddr};

pub fn stub_context<E>(kind: crate::GDErrorKind, _source: E) -> crate::GDError { crate::GDError { kind, source: None, backtrace: None } }
pub fn stub_from_kind(kind: crate::GDErrorKind) -> crate::GDError { crate::GDError { kind, source: None, backtrace: None } }
pub fn stub_format(_args: core::fmt::Arguments<'_>) -> String { String::new() }
fn no_close(_fd: &mut std::os::fd::OwnedFd) {}

static mut EXP_PORT: u16 = 0;
static mut EXP: [u8; 64] = [0; 64];
static mut EXP_LEN: usize = 0;
static mut EXP_TCP: bool = false;
// positions whose value the protocol leaves to the client (ping ids, nonces, GUIDs) are not compared
static mut FREE: [bool; 64] = [false; 64];
fn ip() -> IpAddr { IpAddr::V4(Ipv4Addr::new(127, 0, 0, 1)) }
fn expect(port: u16, tcp: bool, bytes: &[u8]) -> SocketAddr {
    unsafe {
        EXP_PORT = port;
        EXP_TCP = tcp;
        EXP_LEN = bytes.len();
        let mut i = 0;
        while i < bytes.len() {
            EXP[i] = bytes[i];
            FREE[i] = false;
            i += 1;
        }
    }
    SocketAddr::new(ip(), port)
}
fn free(from: usize, to: usize) {
    unsafe {
        let mut i = from;
        while i < to {
            FREE[i] = true;
            i += 1;
        }
    }
}
fn rec_udp_new(address: &SocketAddr, _t: &Option<TimeoutSettings>) -> GDResult<UdpSocketImpl> {
    unsafe { assert!(!EXP_TCP, "protocol uses UDP"); assert!(address.port() == EXP_PORT && address.ip() == ip(), "destination is the caller's address and port"); }
    Ok(UdpSocketImpl { socket: unsafe { core::mem::zeroed() }, address: *address })
}
fn rec_tcp_new(address: &SocketAddr, _t: &Option<TimeoutSettings>) -> GDResult<TcpSocketImpl> {
    unsafe { assert!(EXP_TCP, "protocol uses TCP"); assert!(address.port() == EXP_PORT && address.ip() == ip(), "destination is the caller's address and port"); }
    Ok(TcpSocketImpl { socket: unsafe { core::mem::zeroed() }, address: *address })
}
fn check_bytes(data: &[u8]) {
    unsafe {
        assert!(data.len() == EXP_LEN, "first request has the protocol's length");
        let mut i = 0;
        while i < EXP_LEN {
            assert!(FREE[i] || data[i] == EXP[i], "first request has the protocol's bytes");
            i += 1;
        }
    }
    kani::assume(false);
}
fn rec_udp_send(_s: &mut UdpSocketImpl, data: &[u8]) -> GDResult<()> { check_bytes(data); Ok(()) }
fn rec_tcp_send(_s: &mut TcpSocketImpl, data: &[u8]) -> GDResult<()> { check_bytes(data); Ok(()) }

macro_rules! firstreq {
    ($name:ident, $unwind:literal, $body:block) => { firstreq!(@gen $name, $unwind, $body, allow(unused)); };
    // vacuity guard: a harness that MUST be refuted
    (refuted $name:ident, $unwind:literal, $body:block) => { firstreq!(@gen $name, $unwind, $body, kani::should_panic); };
    (@gen $name:ident, $unwind:literal, $body:block, $extra:meta) => {
        #[kani::proof]
        #[$extra]
        #[kani::unwind($unwind)]
        #[kani::stub(<UdpSocketImpl as Socket>::new, rec_udp_new)]
        #[kani::stub(<TcpSocketImpl as Socket>::new, rec_tcp_new)]
        #[kani::stub(<UdpSocketImpl as Socket>::send, rec_udp_send)]
        #[kani::stub(<TcpSocketImpl as Socket>::send, rec_tcp_send)]
        #[kani::stub(<std::os::fd::OwnedFd as core::ops::Drop>::drop, no_close)]
        #[kani::stub(crate::errors::kind::GDErrorKind::context, stub_context)]
        #[kani::stub(<crate::errors::error::GDError as std::convert::From<crate::errors::kind::GDErrorKind>>::from, stub_from_kind)]
        #[kani::stub(alloc::fmt::format, stub_format)]
        fn $name() {
            $body;
            assert!(false, "the client returned without sending anything");
        }
    };
}

firstreq!(firstreq_valve_info, 70, {
    let port: u16 = kani::any();
    let a = expect(port, false, b"\xFF\xFF\xFF\xFFTSource Engine Query\0");
    let r = crate::protocols::valve::query(&a, crate::protocols::valve::Engine::new(730), None, None);
    core::mem::forget(r);
});
firstreq!(firstreq_gamespy_one, 70, {
    let port: u16 = kani::any();
    let a = expect(port, false, b"\\status\\xserverquery");
    let r = crate::protocols::gamespy::one::query(&a, None);
    core::mem::forget(r);
});
firstreq!(firstreq_gamespy_two, 70, {
    let port: u16 = kani::any();
    let a = expect(port, false, &[0xFE, 0xFD, 0x00, 0x00, 0x00, 0x00, 0x01, 0xFF, 0xFF, 0xFF]);
    free(3, 7); // ping id chosen by the client
    let r = crate::protocols::gamespy::two::query(&a, None);
    core::mem::forget(r);
});
firstreq!(firstreq_gamespy_three, 70, {
    let port: u16 = kani::any();
    // handshake: FE FD, kind 9, session id 1 (big-endian)
    let a = expect(port, false, &[0xFE, 0xFD, 0x09, 0x00, 0x00, 0x00, 0x01]);
    free(3, 7); // session id chosen by the client
    let r = crate::protocols::gamespy::three::query(&a, None);
    core::mem::forget(r);
});
firstreq!(firstreq_quake_one, 70, {
    let port: u16 = kani::any();
    let a = expect(port, false, b"\xFF\xFF\xFF\xFFstatus\0");
    let r = crate::protocols::quake::one::query(&a, None);
    core::mem::forget(r);
});
firstreq!(firstreq_quake_two, 70, {
    let port: u16 = kani::any();
    let a = expect(port, false, b"\xFF\xFF\xFF\xFFstatus\0");
    let r = crate::protocols::quake::two::query(&a, None);
    core::mem::forget(r);
});
firstreq!(firstreq_quake_three, 70, {
    let port: u16 = kani::any();
    let a = expect(port, false, b"\xFF\xFF\xFF\xFFgetstatus\0");
    let r = crate::protocols::quake::three::query(&a, None);
    core::mem::forget(r);
});
firstreq!(firstreq_unreal2, 70, {
    let port: u16 = kani::any();
    let a = expect(port, false, &[0x79, 0, 0, 0, 0]);
    let g = crate::protocols::unreal2::GatheringSettings::default();
    let r = crate::protocols::unreal2::query(&a, &g, None);
    core::mem::forget(r);
});
firstreq!(firstreq_savage2, 70, {
    let a = expect(11235, false, &[0x01]);
    let r = crate::games::savage2::query(&ip(), None);
    core::mem::forget(r);
});
firstreq!(firstreq_ffow, 70, {
    let port: u16 = kani::any();
    let a = expect(port, false, b"\xFF\xFF\xFF\xFF\x46LSQ");
    let r = crate::games::ffow::query(&ip(), Some(port));
    core::mem::forget(r);
});
firstreq!(firstreq_mindustry, 70, {
    let port: u16 = kani::any();
    let a = expect(port, false, &[0xFE, 0x01]);
    let r = crate::games::mindustry::query(&ip(), Some(port), &None);
    core::mem::forget(r);
});
firstreq!(firstreq_minecraft_bedrock, 70, {
    let port: u16 = kani::any();
    let a = expect(port, false, &[0x01, 0x11, 0x22, 0x33, 0x44, 0x55, 0x66, 0x77, 0x88, 0x00, 0xff, 0xff, 0x00, 0xfe, 0xfe, 0xfe, 0xfe, 0xfd, 0xfd, 0xfd, 0xfd,
                                  0x12, 0x34, 0x56, 0x78, 0x00, 0x00, 0x00, 0x00, 0x00, 0x00, 0x00, 0x00]);
    free(1, 9);   // nonce / timestamp chosen by the client
    free(25, 33); // client GUID
    let r = crate::games::minecraft::protocol::query_bedrock(&a, None);
    core::mem::forget(r);
});
firstreq!(firstreq_minecraft_java, 70, {
    let port: u16 = kani::any();
    // frame length 0x10, packet id 0, protocol version -1 as a varint, "gamedig" with its length, the port BIG-endian, next state 1
    let want = [0x10u8, 0x00, 0xFF, 0xFF, 0xFF, 0xFF, 0x0F, 0x07, b'g', b'a', b'm', b'e', b'd', b'i', b'g', (port >> 8) as u8, (port & 0xff) as u8, 0x01];
    let a = expect(port, true, &want);
    let r = crate::games::minecraft::protocol::query_java(&a, None, None);
    core::mem::forget(r);
});
firstreq!(firstreq_minecraft_legacy_1_6, 70, {
    let port: u16 = kani::any();
    let a = expect(port, true, &[0xfe, 0x01, 0xfa, 0x00, 0x07, 0x00, 0x47, 0x00, 0x61, 0x00, 0x6D, 0x00, 0x65, 0x00, 0x44, 0x00, 0x69, 0x00, 0x67]);
    let r = crate::games::minecraft::protocol::query_legacy_specific(crate::games::minecraft::LegacyGroup::V1_6, &a, None);
    core::mem::forget(r);
});
firstreq!(firstreq_minecraft_legacy_1_4, 70, {
    let port: u16 = kani::any();
    let a = expect(port, true, &[0xFE, 0x01]);
    let r = crate::games::minecraft::protocol::query_legacy_specific(crate::games::minecraft::LegacyGroup::V1_4, &a, None);
    core::mem::forget(r);
});
firstreq!(firstreq_minecraft_legacy_b1_8, 70, {
    let port: u16 = kani::any();
    let a = expect(port, true, &[0xFE]);
    let r = crate::games::minecraft::protocol::query_legacy_specific(crate::games::minecraft::LegacyGroup::VB1_8, &a, None);
    core::mem::forget(r);
});

// vacuity guards: a wrong byte / a wrong port in the expectation must be refuted (the recorders are really reached)
firstreq!(refuted firstreq_selftest_wrong_byte, 70, {
    let port: u16 = kani::any();
    let a = expect(port, false, b"\\status\\xserverquerY");
    let r = crate::protocols::gamespy::one::query(&a, None);
    core::mem::forget(r);
});
firstreq!(refuted firstreq_selftest_wrong_port, 70, {
    let a = expect(11236, false, &[0x01]);
    let r = crate::games::savage2::query(&ip(), None);
    core::mem::forget(r);
});
