// C15 harnesses: the protocol-independent view returns exactly the protocol-specific fields.
// Injected as `#[cfg(kani)] mod verif_common;` at the end of crates/lib/src/lib.rs of a scratch copy.
// common_epic needs feature `tls`; common_minetest needs `tls` + `serde` (+ default `services`, `games`). `cargo kani
// --features` is rejected by the workspace (gamedig_cli has no such features), so add "tls", "serde" to `default` in
// crates/lib/Cargo.toml of the scratch copy. Without them those two harnesses are compiled out; all others need only
// the default features.
#![allow(dead_code, unused_imports)]
use crate::protocols::types::{CommonPlayer, CommonResponse};
use crate::protocols::{GenericResponse};
use crate::protocols::types::GenericPlayer;

// a player name that is either empty or not (an adaptor that filters or special-cases empty names is then visible)
fn any_name() -> String { if kani::any() { String::new() } else { String::from("pl") } }
fn same_str(a: &str, b: &str) -> bool { a.as_ptr() == b.as_ptr() && a.len() == b.len() }
fn opt_same(a: Option<&str>, b: &str) -> bool { match a { Some(x) => same_str(x, b), None => false } }

// `HashMap::new()` / `HashSet::new()` reach `RandomState::new()`, whose thread-local key initialisation ends in a raw
// `syscall` Kani cannot model. An empty table with fixed hash keys is the same value for the purposes of these harnesses.
fn fixed_state() -> std::hash::RandomState { unsafe { core::mem::transmute::<[u64; 2], std::hash::RandomState>([0, 0]) } }
fn empty_map<K, V>() -> std::collections::HashMap<K, V> { std::collections::HashMap::with_hasher(fixed_state()) }
fn empty_set<K>() -> std::collections::HashSet<K> { std::collections::HashSet::with_hasher(fixed_state()) }

#[kani::proof]
#[kani::unwind(4)]
fn common_valve() {
    use crate::protocols::valve::{Response, ServerInfo, ServerPlayer, Server, Environment};
    let p = ServerPlayer { name: any_name(), score: kani::any(), duration: 1.5, deaths: None, money: None };
    let r = Response {
        info: ServerInfo {
            protocol_version: kani::any(), name: String::from("nm"), map: String::from("mp"), folder: String::from("f"), game_mode: String::from("gm"),
            appid: kani::any(), players_online: kani::any(), players_maximum: kani::any(), players_bots: kani::any(),
            server_type: Server::Dedicated, environment_type: Environment::Linux, has_password: kani::any(), vac_secured: kani::any(),
            the_ship: None, game_version: String::from("v"), extra_data: None, is_mod: false, mod_data: None,
        },
        players: Some(vec![p]),
        rules: None,
    };
    assert!(opt_same(r.name(), &r.info.name));
    assert!(opt_same(r.map(), &r.info.map));
    assert!(opt_same(r.game_mode(), &r.info.game_mode));
    assert!(opt_same(r.game_version(), &r.info.game_version));
    assert!(r.description().is_none());
    assert!(r.players_maximum() == r.info.players_maximum as u32);
    assert!(r.players_online() == r.info.players_online as u32);
    assert!(r.players_bots() == Some(r.info.players_bots as u32));
    assert!(r.has_password() == Some(r.info.has_password));
    let ps = r.players().unwrap();
    assert!(ps.len() == 1);
    let p0 = &r.players.as_ref().unwrap()[0];
    assert!(same_str(ps[0].name(), &p0.name));
    assert!(ps[0].score() == Some(p0.score));
    match ps[0].as_original() { GenericPlayer::Valve(x) => assert!(core::ptr::eq(x, p0)), _ => assert!(false) }
    match r.as_original() { GenericResponse::Valve(x) => assert!(core::ptr::eq(x, &r)), _ => assert!(false) }
    let j = r.as_json();
    assert!(j.name == r.name() && j.map == r.map() && j.game_mode == r.game_mode() && j.game_version == r.game_version() && j.description.is_none());
    assert!(j.players_maximum == r.players_maximum() && j.players_online == r.players_online() && j.players_bots == r.players_bots() && j.has_password == r.has_password());
    let jp = j.players.as_ref().unwrap();
    assert!(jp.len() == 1 && same_str(jp[0].name, &p0.name) && jp[0].score == Some(p0.score));
    core::mem::forget(j); core::mem::forget(ps); core::mem::forget(r);
}

// ---------------------------------------------------------------------------------------------
// GameSpy 1/2/3
// ---------------------------------------------------------------------------------------------

#[kani::proof]
#[kani::unwind(4)]
fn common_gamespy_one() {
    use crate::protocols::gamespy::one::{Player, Response};
    use crate::protocols::gamespy::{VersionedPlayer, VersionedResponse};
    let p = Player {
        name: any_name(), team: None, ping: kani::any(), face: None, skin: None, mesh: None,
        score: kani::any(), deaths: None, health: None, secret: None,
    };
    let r = Response {
        name: String::from("nm"), map: String::from("mp"), map_title: None, admin_contact: None, admin_name: None,
        has_password: kani::any(), game_mode: String::from("gm"), game_version: String::from("v"),
        players_maximum: kani::any(), players_online: kani::any(), players_minimum: None,
        players: vec![p], tournament: kani::any(), unused_entries: empty_map(),
    };
    assert!(opt_same(r.name(), &r.name));
    assert!(opt_same(r.map(), &r.map));
    assert!(opt_same(r.game_mode(), &r.game_mode));
    assert!(opt_same(r.game_version(), &r.game_version));
    assert!(r.description().is_none());
    assert!(r.players_maximum() == r.players_maximum);
    assert!(r.players_online() == r.players_online);
    assert!(r.players_bots().is_none());
    assert!(r.has_password() == Some(r.has_password));
    let ps = r.players().unwrap();
    assert!(ps.len() == 1);
    let p0 = &r.players[0];
    assert!(same_str(ps[0].name(), &p0.name));
    assert!(ps[0].score() == Some(p0.score));
    match ps[0].as_original() { GenericPlayer::Gamespy(VersionedPlayer::One(x)) => assert!(core::ptr::eq(x, p0)), _ => assert!(false) }
    match r.as_original() { GenericResponse::GameSpy(VersionedResponse::One(x)) => assert!(core::ptr::eq(x, &r)), _ => assert!(false) }
    let j = r.as_json();
    assert!(j.name == r.name() && j.map == r.map() && j.game_mode == r.game_mode() && j.game_version == r.game_version() && j.description.is_none());
    assert!(j.players_maximum == r.players_maximum() && j.players_online == r.players_online() && j.players_bots.is_none() && j.has_password == r.has_password());
    let jp = j.players.as_ref().unwrap();
    assert!(jp.len() == 1 && same_str(jp[0].name, &p0.name) && jp[0].score == Some(p0.score));
    core::mem::forget(j); core::mem::forget(ps); core::mem::forget(r);
}

#[kani::proof]
#[kani::unwind(4)]
fn common_gamespy_two() {
    use crate::protocols::gamespy::two::{Player, Response, Team};
    use crate::protocols::gamespy::{VersionedPlayer, VersionedResponse};
    let p = Player { name: any_name(), score: kani::any(), ping: kani::any(), team_index: kani::any() };
    let r = Response {
        name: String::from("nm"), map: String::from("mp"), has_password: kani::any(),
        teams: vec![Team { name: String::from("t"), score: kani::any() }],
        players_maximum: kani::any(), players_online: kani::any(), players_minimum: None,
        players: vec![p], unused_entries: empty_map(),
    };
    assert!(opt_same(r.name(), &r.name));
    assert!(opt_same(r.map(), &r.map));
    assert!(r.game_mode().is_none());
    assert!(r.game_version().is_none());
    assert!(r.description().is_none());
    assert!(r.players_maximum() == r.players_maximum);
    assert!(r.players_online() == r.players_online);
    assert!(r.players_bots().is_none());
    assert!(r.has_password() == Some(r.has_password));
    let ps = r.players().unwrap();
    assert!(ps.len() == 1);
    let p0 = &r.players[0];
    assert!(same_str(ps[0].name(), &p0.name));
    assert!(ps[0].score() == Some(p0.score as i32));
    match ps[0].as_original() { GenericPlayer::Gamespy(VersionedPlayer::Two(x)) => assert!(core::ptr::eq(x, p0)), _ => assert!(false) }
    match r.as_original() { GenericResponse::GameSpy(VersionedResponse::Two(x)) => assert!(core::ptr::eq(x, &r)), _ => assert!(false) }
    let j = r.as_json();
    assert!(j.name == r.name() && j.map == r.map() && j.game_mode.is_none() && j.game_version.is_none() && j.description.is_none());
    assert!(j.players_maximum == r.players_maximum() && j.players_online == r.players_online() && j.players_bots.is_none() && j.has_password == r.has_password());
    let jp = j.players.as_ref().unwrap();
    assert!(jp.len() == 1 && same_str(jp[0].name, &p0.name) && jp[0].score == Some(p0.score as i32));
    core::mem::forget(j); core::mem::forget(ps); core::mem::forget(r);
}

#[kani::proof]
#[kani::unwind(4)]
fn common_gamespy_three() {
    use crate::protocols::gamespy::three::{Player, Response, Team};
    use crate::protocols::gamespy::{VersionedPlayer, VersionedResponse};
    let p = Player { name: any_name(), score: kani::any(), ping: kani::any(), team: kani::any(), deaths: kani::any(), skill: kani::any() };
    let r = Response {
        name: String::from("nm"), map: String::from("mp"), has_password: kani::any(),
        game_mode: String::from("gm"), game_version: String::from("v"),
        players_maximum: kani::any(), players_online: kani::any(), players_minimum: None,
        players: vec![p], teams: vec![Team { name: String::from("t"), score: kani::any() }],
        tournament: kani::any(), unused_entries: empty_map(),
    };
    assert!(opt_same(r.name(), &r.name));
    assert!(opt_same(r.map(), &r.map));
    assert!(opt_same(r.game_mode(), &r.game_mode));
    assert!(opt_same(r.game_version(), &r.game_version));
    assert!(r.description().is_none());
    assert!(r.players_maximum() == r.players_maximum);
    assert!(r.players_online() == r.players_online);
    assert!(r.players_bots().is_none());
    assert!(r.has_password() == Some(r.has_password));
    let ps = r.players().unwrap();
    assert!(ps.len() == 1);
    let p0 = &r.players[0];
    assert!(same_str(ps[0].name(), &p0.name));
    assert!(ps[0].score() == Some(p0.score));
    match ps[0].as_original() { GenericPlayer::Gamespy(VersionedPlayer::Three(x)) => assert!(core::ptr::eq(x, p0)), _ => assert!(false) }
    match r.as_original() { GenericResponse::GameSpy(VersionedResponse::Three(x)) => assert!(core::ptr::eq(x, &r)), _ => assert!(false) }
    let j = r.as_json();
    assert!(j.name == r.name() && j.map == r.map() && j.game_mode == r.game_mode() && j.game_version == r.game_version() && j.description.is_none());
    assert!(j.players_maximum == r.players_maximum() && j.players_online == r.players_online() && j.players_bots.is_none() && j.has_password == r.has_password());
    let jp = j.players.as_ref().unwrap();
    assert!(jp.len() == 1 && same_str(jp[0].name, &p0.name) && jp[0].score == Some(p0.score));
    core::mem::forget(j); core::mem::forget(ps); core::mem::forget(r);
}

// ---------------------------------------------------------------------------------------------
// Minecraft Java / Bedrock
// ---------------------------------------------------------------------------------------------

#[cfg(feature = "games")]
#[kani::proof]
#[kani::unwind(4)]
fn common_java() {
    use crate::games::minecraft::{JavaResponse, Player, Server, VersionedResponse};
    let p = Player { name: any_name(), id: String::from("id") };
    let r = JavaResponse {
        game_version: String::from("v"), protocol_version: kani::any(), players_maximum: kani::any(), players_online: kani::any(),
        players: Some(vec![p]), description: String::from("ds"), favicon: None, previews_chat: None, enforces_secure_chat: None,
        server_type: Server::Java,
    };
    assert!(r.name().is_none());
    assert!(r.map().is_none());
    assert!(r.game_mode().is_none());
    assert!(opt_same(r.game_version(), &r.game_version));
    assert!(opt_same(r.description(), &r.description));
    assert!(r.players_maximum() == r.players_maximum);
    assert!(r.players_online() == r.players_online);
    assert!(r.players_bots().is_none());
    assert!(r.has_password().is_none());
    let ps = r.players().unwrap();
    assert!(ps.len() == 1);
    let p0 = &r.players.as_ref().unwrap()[0];
    assert!(same_str(ps[0].name(), &p0.name));
    assert!(ps[0].score().is_none());
    match ps[0].as_original() { GenericPlayer::Minecraft(x) => assert!(core::ptr::eq(x, p0)), _ => assert!(false) }
    match r.as_original() { GenericResponse::Minecraft(VersionedResponse::Java(x)) => assert!(core::ptr::eq(x, &r)), _ => assert!(false) }
    let j = r.as_json();
    assert!(j.name.is_none() && j.map.is_none() && j.game_mode.is_none() && j.game_version == r.game_version() && j.description == r.description());
    assert!(j.players_maximum == r.players_maximum() && j.players_online == r.players_online() && j.players_bots.is_none() && j.has_password.is_none());
    let jp = j.players.as_ref().unwrap();
    assert!(jp.len() == 1 && same_str(jp[0].name, &p0.name) && jp[0].score.is_none());
    core::mem::forget(j); core::mem::forget(ps); core::mem::forget(r);
}

// Everything of the Bedrock view except the presence of game_mode (see common_bedrock_game_mode).
#[cfg(feature = "games")]
#[kani::proof]
#[kani::unwind(11)] // game mode names are compared by content (up to 9 bytes)
fn common_bedrock() {
    use crate::games::minecraft::{BedrockResponse, GameMode, Server, VersionedResponse};
    let r = BedrockResponse {
        edition: String::from("e"), name: String::from("nm"), version_name: String::from("v"), protocol_version: String::from("pv"),
        players_maximum: kani::any(), players_online: kani::any(), id: Some(String::from("id")), map: Some(String::from("mp")),
        game_mode: Some(GameMode::Survival), server_type: Server::Bedrock,
    };
    assert!(opt_same(r.name(), &r.name));
    assert!(opt_same(r.map(), r.map.as_ref().unwrap()));
    assert!(opt_same(r.game_version(), &r.version_name));
    assert!(r.description().is_none());
    assert!(r.players_maximum() == r.players_maximum);
    assert!(r.players_online() == r.players_online);
    assert!(r.players_bots().is_none());
    assert!(r.has_password().is_none());
    assert!(r.players().is_none());
    match r.as_original() { GenericResponse::Minecraft(VersionedResponse::Bedrock(x)) => assert!(core::ptr::eq(x, &r)), _ => assert!(false) }
    let j = r.as_json();
    assert!(j.name == r.name() && j.map == r.map() && j.game_mode == r.game_mode() && j.game_version == r.game_version() && j.description.is_none());
    assert!(j.players_maximum == r.players_maximum() && j.players_online == r.players_online() && j.players_bots.is_none() && j.has_password.is_none());
    assert!(j.players.is_none());
    core::mem::forget(j); core::mem::forget(r);
}

// Bedrock with an absent map: the accessor is None as well.
#[cfg(feature = "games")]
#[kani::proof]
#[kani::unwind(4)]
fn common_bedrock_no_map() {
    use crate::games::minecraft::{BedrockResponse, Server};
    let r = BedrockResponse {
        edition: String::from("e"), name: String::from("nm"), version_name: String::from("v"), protocol_version: String::from("pv"),
        players_maximum: kani::any(), players_online: kani::any(), id: None, map: None, game_mode: None, server_type: Server::Bedrock,
    };
    assert!(r.map().is_none());
    assert!(r.game_mode().is_none());
    let j = r.as_json();
    assert!(j.map.is_none() && j.game_mode.is_none());
    core::mem::forget(j); core::mem::forget(r);
}

// (was failing before the fix in /repo: see known_findings.txt) RESPONSES.md lists game_mode (`Option`) for Minecraft(Bedrock) and BedrockResponse has the
// field `game_mode: Option<GameMode>` ("Current game mode."), but `impl CommonResponse for BedrockResponse` does not
// override game_mode(), so the generic view (and its JSON form) always reports None.
#[cfg(feature = "games")]
#[kani::proof]
#[kani::unwind(11)] // game mode names are compared by content (up to 9 bytes)
fn common_bedrock_game_mode() {
    use crate::games::minecraft::{BedrockResponse, GameMode, Server};
    let r = BedrockResponse {
        edition: String::from("e"), name: String::from("nm"), version_name: String::from("v"), protocol_version: String::from("pv"),
        players_maximum: kani::any(), players_online: kani::any(), id: None, map: None,
        game_mode: Some(GameMode::Survival), server_type: Server::Bedrock,
    };
    // the textual form GameMode::from_bedrock accepts for this variant
    assert!(r.game_mode() == Some("Survival"));
    let j = r.as_json();
    assert!(j.game_mode == Some("Survival"));
    core::mem::forget(j); core::mem::forget(r);
}

// ---------------------------------------------------------------------------------------------
// Quake 1 / 2+3
// ---------------------------------------------------------------------------------------------

#[kani::proof]
#[kani::unwind(4)]
fn common_quake_one() {
    use crate::protocols::quake::one::Player;
    use crate::protocols::quake::{Response, VersionedResponse};
    let p = Player {
        id: kani::any(), score: kani::any(), time: kani::any(), ping: kani::any(), name: any_name(), skin: String::from("sk"),
        color_primary: kani::any(), color_secondary: kani::any(),
    };
    let r: Response<Player> = Response {
        name: String::from("nm"), map: String::from("mp"), players: vec![p], players_online: kani::any(), players_maximum: kani::any(),
        game_version: Some(String::from("v")), unused_entries: empty_map(),
    };
    assert!(opt_same(r.name(), &r.name));
    assert!(opt_same(r.map(), &r.map));
    assert!(r.game_mode().is_none());
    assert!(opt_same(r.game_version(), r.game_version.as_ref().unwrap()));
    assert!(r.description().is_none());
    assert!(r.players_maximum() == r.players_maximum as u32);
    assert!(r.players_online() == r.players_online as u32);
    assert!(r.players_bots().is_none());
    assert!(r.has_password().is_none());
    let ps = r.players().unwrap();
    assert!(ps.len() == 1);
    let p0 = &r.players[0];
    assert!(same_str(ps[0].name(), &p0.name));
    assert!(ps[0].score() == Some(p0.score as i32));
    match ps[0].as_original() { GenericPlayer::QuakeOne(x) => assert!(core::ptr::eq(x, p0)), _ => assert!(false) }
    match r.as_original() { GenericResponse::Quake(VersionedResponse::One(x)) => assert!(core::ptr::eq(x, &r)), _ => assert!(false) }
    let j = r.as_json();
    assert!(j.name == r.name() && j.map == r.map() && j.game_mode.is_none() && j.game_version == r.game_version() && j.description.is_none());
    assert!(j.players_maximum == r.players_maximum() && j.players_online == r.players_online() && j.players_bots.is_none() && j.has_password.is_none());
    let jp = j.players.as_ref().unwrap();
    assert!(jp.len() == 1 && same_str(jp[0].name, &p0.name) && jp[0].score == Some(p0.score as i32));
    core::mem::forget(j); core::mem::forget(ps); core::mem::forget(r);
}

#[kani::proof]
#[kani::unwind(4)]
fn common_quake_two() {
    use crate::protocols::quake::two::Player;
    use crate::protocols::quake::{Response, VersionedResponse};
    let p = Player { score: kani::any(), ping: kani::any(), name: any_name(), address: None };
    let r: Response<Player> = Response {
        name: String::from("nm"), map: String::from("mp"), players: vec![p], players_online: kani::any(), players_maximum: kani::any(),
        game_version: None, unused_entries: empty_map(),
    };
    assert!(opt_same(r.name(), &r.name));
    assert!(opt_same(r.map(), &r.map));
    assert!(r.game_mode().is_none());
    assert!(r.game_version().is_none()); // the field is None here (Some is covered by common_quake_one)
    assert!(r.description().is_none());
    assert!(r.players_maximum() == r.players_maximum as u32);
    assert!(r.players_online() == r.players_online as u32);
    assert!(r.players_bots().is_none());
    assert!(r.has_password().is_none());
    let ps = r.players().unwrap();
    assert!(ps.len() == 1);
    let p0 = &r.players[0];
    assert!(same_str(ps[0].name(), &p0.name));
    assert!(ps[0].score() == Some(p0.score));
    match ps[0].as_original() { GenericPlayer::QuakeTwo(x) => assert!(core::ptr::eq(x, p0)), _ => assert!(false) }
    match r.as_original() { GenericResponse::Quake(VersionedResponse::TwoAndThree(x)) => assert!(core::ptr::eq(x, &r)), _ => assert!(false) }
    let j = r.as_json();
    assert!(j.name == r.name() && j.map == r.map() && j.game_mode.is_none() && j.game_version.is_none() && j.description.is_none());
    assert!(j.players_maximum == r.players_maximum() && j.players_online == r.players_online() && j.players_bots.is_none() && j.has_password.is_none());
    let jp = j.players.as_ref().unwrap();
    assert!(jp.len() == 1 && same_str(jp[0].name, &p0.name) && jp[0].score == Some(p0.score));
    core::mem::forget(j); core::mem::forget(ps); core::mem::forget(r);
}

// ---------------------------------------------------------------------------------------------
// Unreal2
// ---------------------------------------------------------------------------------------------

#[kani::proof]
#[kani::unwind(4)]
fn common_unreal2() {
    use crate::protocols::unreal2::{MutatorsAndRules, Player, Players, Response, ServerInfo};
    let p = Player { id: kani::any(), name: any_name(), ping: kani::any(), score: kani::any(), stats_id: kani::any() };
    let r = Response {
        server_info: ServerInfo {
            server_id: kani::any(), ip: String::from("ip"), game_port: kani::any(), query_port: kani::any(),
            name: String::from("nm"), map: String::from("mp"), game_type: String::from("gt"),
            num_players: kani::any(), max_players: kani::any(), password: kani::any(),
        },
        mutators_and_rules: MutatorsAndRules { mutators: empty_set(), rules: empty_map() },
        players: Players { players: vec![p], bots: Vec::new() },
    };
    assert!(opt_same(r.name(), &r.server_info.name));
    assert!(opt_same(r.map(), &r.server_info.map));
    assert!(opt_same(r.game_mode(), &r.server_info.game_type));
    assert!(r.game_version().is_none());
    assert!(r.description().is_none());
    assert!(r.players_maximum() == r.server_info.max_players);
    assert!(r.players_online() == r.server_info.num_players);
    assert!(r.players_bots().is_none());
    // RESPONSES.md leaves has_password blank for Unreal2, but ServerInfo has the field `password`: that is the value to report.
    assert!(r.has_password() == Some(r.server_info.password));
    let ps = r.players().unwrap();
    assert!(ps.len() == 1);
    let p0 = &r.players.players[0];
    assert!(same_str(ps[0].name(), &p0.name));
    assert!(ps[0].score() == Some(p0.score));
    match ps[0].as_original() { GenericPlayer::Unreal2(x) => assert!(core::ptr::eq(x, p0)), _ => assert!(false) }
    match r.as_original() { GenericResponse::Unreal2(x) => assert!(core::ptr::eq(x, &r)), _ => assert!(false) }
    let j = r.as_json();
    assert!(j.name == r.name() && j.map == r.map() && j.game_mode == r.game_mode() && j.game_version.is_none() && j.description.is_none());
    assert!(j.players_maximum == r.players_maximum() && j.players_online == r.players_online() && j.players_bots.is_none() && j.has_password == r.has_password());
    let jp = j.players.as_ref().unwrap();
    assert!(jp.len() == 1 && same_str(jp[0].name, &p0.name) && jp[0].score == Some(p0.score));
    core::mem::forget(j); core::mem::forget(ps); core::mem::forget(r);
}

// ---------------------------------------------------------------------------------------------
// Epic (needs --features tls)
// ---------------------------------------------------------------------------------------------

#[cfg(feature = "tls")]
#[kani::proof]
#[kani::unwind(4)]
fn common_epic() {
    use crate::protocols::epic::{Player, Response};
    let p = Player { name: any_name() };
    let r = Response {
        name: String::from("nm"), map: String::from("mp"), has_password: kani::any(), players_online: kani::any(), players_maxmimum: kani::any(),
        players: vec![p], game_version: Some(String::from("v")), raw: serde_json::Value::Null,
    };
    assert!(opt_same(r.name(), &r.name));
    assert!(opt_same(r.map(), &r.map));
    assert!(r.game_mode().is_none());
    assert!(opt_same(r.game_version(), r.game_version.as_ref().unwrap()));
    assert!(r.description().is_none());
    assert!(r.players_maximum() == r.players_maxmimum);
    assert!(r.players_online() == r.players_online);
    assert!(r.players_bots().is_none());
    assert!(r.has_password() == Some(r.has_password));
    let ps = r.players().unwrap();
    assert!(ps.len() == 1);
    let p0 = &r.players[0];
    assert!(same_str(ps[0].name(), &p0.name));
    assert!(ps[0].score().is_none());
    match ps[0].as_original() { GenericPlayer::Epic(x) => assert!(core::ptr::eq(x, p0)), _ => assert!(false) }
    match r.as_original() { GenericResponse::Epic(x) => assert!(core::ptr::eq(x, &r)), _ => assert!(false) }
    let j = r.as_json();
    assert!(j.name == r.name() && j.map == r.map() && j.game_mode.is_none() && j.game_version == r.game_version() && j.description.is_none());
    assert!(j.players_maximum == r.players_maximum() && j.players_online == r.players_online() && j.players_bots.is_none() && j.has_password == r.has_password());
    let jp = j.players.as_ref().unwrap();
    assert!(jp.len() == 1 && same_str(jp[0].name, &p0.name) && jp[0].score.is_none());
    core::mem::forget(j); core::mem::forget(ps); core::mem::forget(r);
}

// ---------------------------------------------------------------------------------------------
// Proprietary: FFOW, The Ship, JC2M, Savage 2, Minetest, Mindustry, Eco
// ---------------------------------------------------------------------------------------------

#[cfg(feature = "games")]
#[kani::proof]
#[kani::unwind(4)]
fn common_ffow() {
    use crate::games::ffow::Response;
    use crate::protocols::valve::{Environment, Server};
    let r = Response {
        protocol_version: kani::any(), name: String::from("nm"), active_mod: String::from("am"), game_mode: String::from("gm"),
        game_version: String::from("v"), description: String::from("ds"), map: String::from("mp"),
        players_online: kani::any(), players_maximum: kani::any(), server_type: Server::Dedicated, environment_type: Environment::Linux,
        has_password: kani::any(), vac_secured: kani::any(), round: kani::any(), rounds_maximum: kani::any(), time_left: kani::any(),
    };
    assert!(opt_same(r.name(), &r.name));
    assert!(opt_same(r.map(), &r.map));
    assert!(opt_same(r.game_mode(), &r.game_mode));
    assert!(opt_same(r.game_version(), &r.game_version));
    assert!(opt_same(r.description(), &r.description));
    assert!(r.players_maximum() == r.players_maximum as u32);
    assert!(r.players_online() == r.players_online as u32);
    assert!(r.players_bots().is_none());
    assert!(r.has_password() == Some(r.has_password));
    assert!(r.players().is_none());
    match r.as_original() { GenericResponse::FFOW(x) => assert!(core::ptr::eq(x, &r)), _ => assert!(false) }
    let j = r.as_json();
    assert!(j.name == r.name() && j.map == r.map() && j.game_mode == r.game_mode() && j.game_version == r.game_version() && j.description == r.description());
    assert!(j.players_maximum == r.players_maximum() && j.players_online == r.players_online() && j.players_bots.is_none() && j.has_password == r.has_password());
    assert!(j.players.is_none());
    core::mem::forget(j); core::mem::forget(r);
}

// Everything of The Ship's view except game_version (see common_theship_game_version).
#[cfg(feature = "games")]
#[kani::proof]
#[kani::unwind(4)]
fn common_theship() {
    use crate::games::theship::{Response, TheShipPlayer};
    use crate::protocols::valve::Server;
    let p = TheShipPlayer { name: any_name(), score: kani::any(), duration: 1.5, deaths: kani::any(), money: kani::any() };
    let r = Response {
        protocol_version: kani::any(), name: String::from("nm"), map: String::from("mp"), game_mode: String::from("gm"), game_version: String::from("v"),
        players: vec![p], players_online: kani::any(), players_maximum: kani::any(), players_bots: kani::any(),
        server_type: Server::Dedicated, has_password: kani::any(), vac_secured: kani::any(),
        port: None, steam_id: None, tv_port: None, tv_name: None, keywords: None, rules: empty_map(),
        mode: kani::any(), witnesses: kani::any(), duration: kani::any(),
    };
    assert!(opt_same(r.name(), &r.name));
    assert!(opt_same(r.map(), &r.map));
    assert!(opt_same(r.game_mode(), &r.game_mode));
    assert!(r.description().is_none());
    assert!(r.players_maximum() == r.players_maximum as u32);
    assert!(r.players_online() == r.players_online as u32);
    assert!(r.players_bots() == Some(r.players_bots as u32));
    assert!(r.has_password() == Some(r.has_password));
    let ps = r.players().unwrap();
    assert!(ps.len() == 1);
    let p0 = &r.players[0];
    assert!(same_str(ps[0].name(), &p0.name));
    assert!(ps[0].score() == Some(p0.score));
    match ps[0].as_original() { GenericPlayer::TheShip(x) => assert!(core::ptr::eq(x, p0)), _ => assert!(false) }
    match r.as_original() { GenericResponse::TheShip(x) => assert!(core::ptr::eq(x, &r)), _ => assert!(false) }
    let j = r.as_json();
    assert!(j.name == r.name() && j.map == r.map() && j.game_mode == r.game_mode() && j.game_version == r.game_version() && j.description.is_none());
    assert!(j.players_maximum == r.players_maximum() && j.players_online == r.players_online() && j.players_bots == r.players_bots() && j.has_password == r.has_password());
    let jp = j.players.as_ref().unwrap();
    assert!(jp.len() == 1 && same_str(jp[0].name, &p0.name) && jp[0].score == Some(p0.score));
    core::mem::forget(j); core::mem::forget(ps); core::mem::forget(r);
}

// (was failing before the fix in /repo: see known_findings.txt) RESPONSES.md lists game_version (`String`) for TheShip and theship::Response has the field
// `game_version`, but `impl CommonResponse for theship::Response` does not override game_version(), so the generic
// view (and its JSON form) reports None.
#[cfg(feature = "games")]
#[kani::proof]
#[kani::unwind(4)]
fn common_theship_game_version() {
    use crate::games::theship::Response;
    use crate::protocols::valve::Server;
    let r = Response {
        protocol_version: kani::any(), name: String::from("nm"), map: String::from("mp"), game_mode: String::from("gm"), game_version: String::from("v"),
        players: Vec::new(), players_online: kani::any(), players_maximum: kani::any(), players_bots: kani::any(),
        server_type: Server::Dedicated, has_password: kani::any(), vac_secured: kani::any(),
        port: None, steam_id: None, tv_port: None, tv_name: None, keywords: None, rules: empty_map(),
        mode: kani::any(), witnesses: kani::any(), duration: kani::any(),
    };
    assert!(opt_same(r.game_version(), &r.game_version));
    let j = r.as_json();
    assert!(opt_same(j.game_version, &r.game_version));
    core::mem::forget(j); core::mem::forget(r);
}

#[cfg(feature = "games")]
#[kani::proof]
#[kani::unwind(4)]
fn common_jc2m() {
    use crate::games::jc2m::{Player, Response};
    let p = Player { name: any_name(), steam_id: String::from("id"), ping: kani::any() };
    let r = Response {
        game_version: String::from("v"), description: String::from("ds"), name: String::from("nm"), has_password: kani::any(),
        players: vec![p], players_maximum: kani::any(), players_online: kani::any(),
    };
    assert!(opt_same(r.name(), &r.name));
    assert!(r.map().is_none());
    assert!(r.game_mode().is_none());
    assert!(opt_same(r.game_version(), &r.game_version));
    assert!(opt_same(r.description(), &r.description));
    assert!(r.players_maximum() == r.players_maximum);
    assert!(r.players_online() == r.players_online);
    assert!(r.players_bots().is_none());
    assert!(r.has_password() == Some(r.has_password));
    let ps = r.players().unwrap();
    assert!(ps.len() == 1);
    let p0 = &r.players[0];
    assert!(same_str(ps[0].name(), &p0.name));
    assert!(ps[0].score().is_none());
    match ps[0].as_original() { GenericPlayer::JCMP2(x) => assert!(core::ptr::eq(x, p0)), _ => assert!(false) }
    match r.as_original() { GenericResponse::JC2M(x) => assert!(core::ptr::eq(x, &r)), _ => assert!(false) }
    let j = r.as_json();
    assert!(j.name == r.name() && j.map.is_none() && j.game_mode.is_none() && j.game_version == r.game_version() && j.description == r.description());
    assert!(j.players_maximum == r.players_maximum() && j.players_online == r.players_online() && j.players_bots.is_none() && j.has_password == r.has_password());
    let jp = j.players.as_ref().unwrap();
    assert!(jp.len() == 1 && same_str(jp[0].name, &p0.name) && jp[0].score.is_none());
    core::mem::forget(j); core::mem::forget(ps); core::mem::forget(r);
}

#[cfg(feature = "games")]
#[kani::proof]
#[kani::unwind(4)]
fn common_savage2() {
    use crate::games::savage2::Response;
    let r = Response {
        name: String::from("nm"), players_online: kani::any(), players_maximum: kani::any(), players_minimum: kani::any(),
        time: String::from("t"), map: String::from("mp"), next_map: String::from("nx"), location: String::from("lc"),
        game_mode: String::from("gm"), protocol_version: String::from("pv"), level_minimum: kani::any(),
    };
    assert!(opt_same(r.name(), &r.name));
    assert!(opt_same(r.map(), &r.map));
    assert!(opt_same(r.game_mode(), &r.game_mode));
    assert!(r.game_version().is_none());
    assert!(r.description().is_none());
    assert!(r.players_maximum() == r.players_maximum as u32);
    assert!(r.players_online() == r.players_online as u32);
    assert!(r.players_bots().is_none());
    assert!(r.has_password().is_none());
    assert!(r.players().is_none());
    match r.as_original() { GenericResponse::Savage2(x) => assert!(core::ptr::eq(x, &r)), _ => assert!(false) }
    let j = r.as_json();
    assert!(j.name == r.name() && j.map == r.map() && j.game_mode == r.game_mode() && j.game_version.is_none() && j.description.is_none());
    assert!(j.players_maximum == r.players_maximum() && j.players_online == r.players_online() && j.players_bots.is_none() && j.has_password.is_none());
    assert!(j.players.is_none());
    core::mem::forget(j); core::mem::forget(r);
}

// needs --features tls,serde (and the default feature services)
#[cfg(all(feature = "services", feature = "tls", feature = "serde", feature = "games"))]
#[kani::proof]
#[kani::unwind(4)]
fn common_minetest() {
    use crate::games::minetest::{Player, Response};
    let p = Player { name: any_name() };
    let hp: bool = kani::any();
    let r = Response {
        name: String::from("nm"), description: String::from("ds"), game_version: String::from("v"),
        players_maximum: kani::any(), players_online: kani::any(), has_password: if kani::any() { Some(hp) } else { None },
        players: vec![p], id: String::from("id"), ip: String::from("ip"), port: kani::any(), creative: None, damage: kani::any(),
        game_time: kani::any(), lag: None, proto_max: kani::any(), proto_min: kani::any(), pvp: kani::any(), uptime: kani::any(),
        url: None, update_time: kani::any(), start: kani::any(), clients_top: kani::any(), updates: kani::any(), pop_v: 1.5,
        geo_continent: None, ping: 0.5,
    };
    assert!(opt_same(r.name(), &r.name));
    assert!(r.map().is_none());
    assert!(r.game_mode().is_none());
    assert!(opt_same(r.game_version(), &r.game_version));
    assert!(opt_same(r.description(), &r.description));
    assert!(r.players_maximum() == r.players_maximum);
    assert!(r.players_online() == r.players_online);
    assert!(r.players_bots().is_none());
    assert!(r.has_password() == r.has_password);
    let ps = r.players().unwrap();
    assert!(ps.len() == 1);
    let p0 = &r.players[0];
    assert!(same_str(ps[0].name(), &p0.name));
    assert!(ps[0].score().is_none());
    match ps[0].as_original() { GenericPlayer::Minetest(x) => assert!(core::ptr::eq(x, p0)), _ => assert!(false) }
    match r.as_original() { GenericResponse::Minetest(x) => assert!(core::ptr::eq(x, &r)), _ => assert!(false) }
    let j = r.as_json();
    assert!(j.name == r.name() && j.map.is_none() && j.game_mode.is_none() && j.game_version == r.game_version() && j.description == r.description());
    assert!(j.players_maximum == r.players_maximum() && j.players_online == r.players_online() && j.players_bots.is_none() && j.has_password == r.has_password());
    let jp = j.players.as_ref().unwrap();
    assert!(jp.len() == 1 && same_str(jp[0].name, &p0.name) && jp[0].score.is_none());
    core::mem::forget(j); core::mem::forget(ps); core::mem::forget(r);
}

#[cfg(feature = "games")]
#[kani::proof]
#[kani::unwind(10)] // the game mode names are compared by content: up to 8 bytes ("survival", "sandbox")
fn common_mindustry() {
    use crate::games::mindustry::types::{GameMode, ServerData};
    let gm: u8 = kani::any();
    kani::assume(gm <= 4);
    let r = ServerData {
        host: String::from("h"), map: String::from("mp"), players: kani::any(), wave: kani::any(), version: kani::any(),
        version_type: String::from("vt"), gamemode: GameMode::try_from(gm).unwrap(), player_limit: kani::any(),
        description: String::from("ds"), mode_name: None,
    };
    // ServerData has no server-name string by that name/documentation (`host` is undocumented) and no version string.
    assert!(r.name().is_none());
    assert!(r.game_version().is_none());
    assert!(opt_same(r.map(), &r.map));
    assert!(opt_same(r.description(), &r.description));
    // the enum is rendered as the lower-case name Mindustry itself uses
    let expected_mode = match r.gamemode {
        GameMode::Survival => "survival", GameMode::Sandbox => "sandbox", GameMode::Attack => "attack",
        GameMode::PVP => "pvp", GameMode::Editor => "editor",
    };
    assert!(r.game_mode() == Some(expected_mode));
    // negative counts are reported as 0, everything else unchanged
    assert!(r.players_online() == if r.players < 0 { 0 } else { r.players as u32 });
    assert!(r.players_maximum() == if r.player_limit < 0 { 0 } else { r.player_limit as u32 });
    assert!(r.players_bots().is_none());
    assert!(r.has_password().is_none());
    assert!(r.players().is_none());
    match r.as_original() { GenericResponse::Mindustry(x) => assert!(core::ptr::eq(x, &r)), _ => assert!(false) }
    let j = r.as_json();
    assert!(j.name.is_none() && j.map == r.map() && j.game_mode == Some(expected_mode) && j.game_version.is_none() && j.description == r.description());
    assert!(j.players_maximum == r.players_maximum() && j.players_online == r.players_online() && j.players_bots.is_none() && j.has_password.is_none());
    assert!(j.players.is_none());
    core::mem::forget(j); core::mem::forget(r);
}

#[cfg(feature = "games")]
#[kani::proof]
#[kani::unwind(4)]
fn common_eco() {
    use crate::games::eco::{Player, Response};
    let p = Player { name: any_name() };
    let r = Response {
        external: kani::any(), port: kani::any(), query_port: kani::any(), is_lan: kani::any(),
        description: String::from("ds"), description_detailed: String::from("dd"), description_economy: String::from("de"),
        category: String::from("c"), players_online: kani::any(), players_maximum: kani::any(), players: vec![p],
        admin_online: kani::any(), time_since_start: 1.5, time_left: 2.5, animals: kani::any(), plants: kani::any(), laws: kani::any(),
        world_size: String::from("ws"), game_version: String::from("v"), skill_specialization_setting: String::from("ss"),
        language: String::from("l"), has_password: kani::any(), has_meteor: kani::any(),
        distribution_station_items: String::from("di"), playtimes: String::from("pt"), discord_address: String::from("da"),
        is_paused: kani::any(), active_and_online_players: kani::any(), peak_active_players: kani::any(), max_active_players: kani::any(),
        shelf_life_multiplier: 0.5, exhaustion_after_hours: 3.5, is_limiting_hours: kani::any(),
        server_achievements_dict: empty_map(), relay_address: String::from("ra"), access: String::from("a"), connect: String::from("cn"),
    };
    assert!(r.name().is_none());
    assert!(r.map().is_none());
    assert!(r.game_mode().is_none());
    assert!(opt_same(r.game_version(), &r.game_version));
    assert!(opt_same(r.description(), &r.description));
    assert!(r.players_maximum() == r.players_maximum);
    assert!(r.players_online() == r.players_online);
    assert!(r.players_bots().is_none());
    assert!(r.has_password() == Some(r.has_password));
    let ps = r.players().unwrap();
    assert!(ps.len() == 1);
    let p0 = &r.players[0];
    assert!(same_str(ps[0].name(), &p0.name));
    assert!(ps[0].score().is_none());
    match ps[0].as_original() { GenericPlayer::Eco(x) => assert!(core::ptr::eq(x, p0)), _ => assert!(false) }
    match r.as_original() { GenericResponse::Eco(x) => assert!(core::ptr::eq(x, &r)), _ => assert!(false) }
    let j = r.as_json();
    assert!(j.name.is_none() && j.map.is_none() && j.game_mode.is_none() && j.game_version == r.game_version() && j.description == r.description());
    assert!(j.players_maximum == r.players_maximum() && j.players_online == r.players_online() && j.players_bots.is_none() && j.has_password == r.has_password());
    let jp = j.players.as_ref().unwrap();
    assert!(jp.len() == 1 && same_str(jp[0].name, &p0.name) && jp[0].score.is_none());
    core::mem::forget(j); core::mem::forget(ps); core::mem::forget(r);
}
