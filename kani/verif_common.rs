// C15 harnesses: the protocol-independent view returns exactly the protocol-specific fields.
// Injected as `#[cfg(kani)] mod verif_common;` at the end of crates/lib/src/lib.rs of a scratch copy.
#![allow(dead_code, unused_imports)]
use crate::protocols::types::{CommonPlayer, CommonResponse};
use crate::protocols::{GenericResponse};
use crate::protocols::types::GenericPlayer;

fn same_str(a: &str, b: &str) -> bool { a.as_ptr() == b.as_ptr() && a.len() == b.len() }
fn opt_same(a: Option<&str>, b: &str) -> bool { match a { Some(x) => same_str(x, b), None => false } }

#[kani::proof]
#[kani::unwind(4)]
fn common_valve() {
    use crate::protocols::valve::{Response, ServerInfo, ServerPlayer, Server, Environment};
    let p = ServerPlayer { name: String::from("pl"), score: kani::any(), duration: 1.5, deaths: None, money: None };
    let r = Response {
        info: ServerInfo {
            protocol_version: kani::any(), name: String::from("nm"), map: String::from("mp"), folder: String::from("f"), game_mode: String::from("gm"),
            appid: kani::any(), players_online: kani::any(), players_maximum: kani::any(), players_bots: kani::any(),
            server_type: Server::Dedicated, environment_type: Environment::Linux, has_password: kani::any(), vac_secured: kani::any(),
            the_ship: None, game_version: String::from("v"), extra_data: None, is_mod: false, mod_data: None,
        },
        players: Some(vec![p]),
        rules: None,
    };
    assert!(opt_same(r.name(), &r.info.name));
    assert!(opt_same(r.map(), &r.info.map));
    assert!(opt_same(r.game_mode(), &r.info.game_mode));
    assert!(opt_same(r.game_version(), &r.info.game_version));
    assert!(r.description().is_none());
    assert!(r.players_maximum() == r.info.players_maximum as u32);
    assert!(r.players_online() == r.info.players_online as u32);
    assert!(r.players_bots() == Some(r.info.players_bots as u32));
    assert!(r.has_password() == Some(r.info.has_password));
    let ps = r.players().unwrap();
    assert!(ps.len() == 1);
    let p0 = &r.players.as_ref().unwrap()[0];
    assert!(same_str(ps[0].name(), &p0.name));
    assert!(ps[0].score() == Some(p0.score));
    match ps[0].as_original() { GenericPlayer::Valve(x) => assert!(core::ptr::eq(x, p0)), _ => assert!(false) }
    match r.as_original() { GenericResponse::Valve(x) => assert!(core::ptr::eq(x, &r)), _ => assert!(false) }
    let j = r.as_json();
    assert!(j.name == r.name() && j.map == r.map() && j.game_mode == r.game_mode() && j.game_version == r.game_version() && j.description.is_none());
    assert!(j.players_maximum == r.players_maximum() && j.players_online == r.players_online() && j.players_bots == r.players_bots() && j.has_password == r.has_password());
    let jp = j.players.as_ref().unwrap();
    assert!(jp.len() == 1 && same_str(jp[0].name, &p0.name) && jp[0].score == Some(p0.score));
    core::mem::forget(j); core::mem::forget(ps); core::mem::forget(r);
}
