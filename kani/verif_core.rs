// Kani harnesses injected (add-only) as `#[cfg(kani)] mod verif_core;` at the end of crates/lib/src/lib.rs
// of a scratch copy of the working tree.  They call the REAL functions of the crate.
#![allow(dead_code, unused_imports)]
use crate::buffer::Buffer;
use byteorder::{BigEndian, ByteOrder, LittleEndian};

// ---- stubs every harness uses (see DESIGN 1.2): error construction must not format / capture ----
pub fn stub_context<E>(kind: crate::GDErrorKind, _source: E) -> crate::GDError {
    crate::GDError { kind, source: None, backtrace: None }
}
pub fn stub_from_kind(kind: crate::GDErrorKind) -> crate::GDError {
    crate::GDError { kind, source: None, backtrace: None }
}
pub fn stub_format(_args: core::fmt::Arguments<'_>) -> String { String::new() }

/// independent reference decoder for a VarInt (wiki.vg), on u64 arithmetic
fn ref_varint(bytes: &[u8; 5]) -> Option<(i32, usize)> {
    let mut acc: u64 = 0;
    let mut k = 0usize;
    while k < 5 {
        acc += ((bytes[k] & 0x7f) as u64) * (1u64 << (7 * k));
        if k == 4 && bytes[k] & 0xf0 != 0 { return None; }
        if bytes[k] & 0x80 == 0 { return Some(((acc & 0xffff_ffff) as u32 as i32, k + 1)); }
        k += 1;
    }
    Some(((acc & 0xffff_ffff) as u32 as i32, 5))
}

// C17: VarInt round trip, complete over all 2^32 values (loops bounded by 5, unwinding assertions on)
#[kani::proof]
#[kani::unwind(7)]
#[kani::stub(crate::errors::kind::GDErrorKind::context, stub_context)]
#[kani::stub(<crate::errors::error::GDError as std::convert::From<crate::errors::kind::GDErrorKind>>::from, stub_from_kind)]
#[kani::stub(alloc::fmt::format, stub_format)]
fn varint_roundtrip_all_i32() {
    let x: i32 = kani::any();
    let enc = crate::games::minecraft::types::as_varint(x);
    assert!(enc.len() >= 1 && enc.len() <= 5);
    // canonical: every byte but the last has the continuation bit, the last has not
    let mut k = 0;
    while k < enc.len() {
        assert!((enc[k] & 0x80 != 0) == (k + 1 < enc.len()));
        k += 1;
    }
    let mut buf = Buffer::<LittleEndian>::new(&enc);
    let dec = crate::games::minecraft::types::get_varint(&mut buf);
    match dec {
        Ok(v) => { assert!(v == x); assert!(buf.remaining_length() == 0); }
        Err(e) => { core::mem::forget(e); assert!(false); }
    }
    core::mem::forget(enc);
}

// C17: the decoder agrees with the reference on every 5-byte window (all continuation classes),
// rejects exactly the over-long encodings, and consumes exactly the encoded length
#[kani::proof]
#[kani::unwind(7)]
#[kani::stub(crate::errors::kind::GDErrorKind::context, stub_context)]
#[kani::stub(<crate::errors::error::GDError as std::convert::From<crate::errors::kind::GDErrorKind>>::from, stub_from_kind)]
#[kani::stub(alloc::fmt::format, stub_format)]
fn varint_decode_matches_reference() {
    let bytes: [u8; 5] = kani::any();
    let mut buf = Buffer::<BigEndian>::new(&bytes);
    let dec = crate::games::minecraft::types::get_varint(&mut buf);
    match (dec, ref_varint(&bytes)) {
        (Ok(v), Some((rv, n))) => { assert!(v == rv); assert!(buf.current_position() == n); }
        (Err(e), None) => { core::mem::forget(e); }
        (Ok(_), None) => { assert!(false); }
        (Err(e), Some(_)) => { core::mem::forget(e); assert!(false); }
    }
}

// R5 cross-check: the specs Verus ASSUMES for byteorder are re-proved here on the real byteorder code
fn ord_nat(le: bool, s: &[u8]) -> u64 {
    let mut v: u64 = 0;
    let n = s.len();
    let mut i = 0;
    while i < n {
        let b = if le { s[n - 1 - i] } else { s[i] };
        v = v * 256 + b as u64;
        i += 1;
    }
    v
}
#[kani::proof]
#[kani::unwind(10)]
fn byteorder_specs() {
    let b: [u8; 9] = kani::any();
    assert!(LittleEndian::read_u16(&b) as u64 == ord_nat(true, &b[..2]));
    assert!(BigEndian::read_u16(&b) as u64 == ord_nat(false, &b[..2]));
    assert!(LittleEndian::read_i16(&b) == ord_nat(true, &b[..2]) as u16 as i16);
    assert!(BigEndian::read_i16(&b) == ord_nat(false, &b[..2]) as u16 as i16);
    assert!(LittleEndian::read_u32(&b) as u64 == ord_nat(true, &b[..4]));
    assert!(BigEndian::read_u32(&b) as u64 == ord_nat(false, &b[..4]));
    assert!(LittleEndian::read_i32(&b) == ord_nat(true, &b[..4]) as u32 as i32);
    assert!(BigEndian::read_i32(&b) == ord_nat(false, &b[..4]) as u32 as i32);
    assert!(LittleEndian::read_u64(&b) == ord_nat(true, &b[..8]));
    assert!(BigEndian::read_u64(&b) == ord_nat(false, &b[..8]));
    assert!(LittleEndian::read_i64(&b) == ord_nat(true, &b[..8]) as i64);
    assert!(BigEndian::read_i64(&b) == ord_nat(false, &b[..8]) as i64);
    assert!(LittleEndian::read_f32(&b).to_bits() as u64 == ord_nat(true, &b[..4]));
    assert!(BigEndian::read_f32(&b).to_bits() as u64 == ord_nat(false, &b[..4]));
    assert!(LittleEndian::read_f64(&b).to_bits() == ord_nat(true, &b[..8]));
    assert!(BigEndian::read_f64(&b).to_bits() == ord_nat(false, &b[..8]));
}
#[kani::proof]
#[kani::unwind(6)]
fn byteorder_read_u16_into_spec() {
    let b: [u8; 6] = kani::any();
    let mut d = [0u16; 3];
    LittleEndian::read_u16_into(&b, &mut d);
    let mut e = [0u16; 3];
    BigEndian::read_u16_into(&b, &mut e);
    let mut i = 0;
    while i < 3 {
        assert!(d[i] as u64 == ord_nat(true, &b[2 * i..2 * i + 2]));
        assert!(e[i] as u64 == ord_nat(false, &b[2 * i..2 * i + 2]));
        i += 1;
    }
}

// std idioms assumed in contracts/std_assumed.rs, checked on the real std at bounded length (8 bytes)
#[kani::proof]
#[kani::unwind(10)]
fn idiom_position_eq_spec() {
    let s: [u8; 8] = kani::any();
    let n: usize = kani::any();
    kani::assume(n <= 8);
    let x: u8 = kani::any();
    let r = s[..n].iter().position(|&b| b == x);
    match r {
        Some(i) => { assert!(i < n && s[i] == x); let mut j = 0; while j < i { assert!(s[j] != x); j += 1; } }
        None => { let mut j = 0; while j < n { assert!(s[j] != x); j += 1; } }
    }
}
#[kani::proof]
#[kani::unwind(10)]
fn idiom_skip_take_position_eq_spec() {
    let s: [u8; 8] = kani::any();
    let n: usize = kani::any();
    kani::assume(n <= 8);
    let t: usize = kani::any();
    kani::assume(t <= 255);
    let x: u8 = kani::any();
    let r = s[..n].iter().skip(1).take(t).position(|&b| b == x);
    // window = s[1 .. min(n, 1+t)]
    let hi = if 1 + t < n { 1 + t } else { n };
    match r {
        Some(i) => { assert!(1 + i < hi && s[1 + i] == x); let mut j = 0; while j < i { assert!(s[1 + j] != x); j += 1; } }
        None => { let mut j = 1; while j < hi { assert!(s[j] != x); j += 1; } }
    }
}
#[kani::proof]
#[kani::unwind(10)]
fn idiom_chunks2_position_eq_spec() {
    let s: [u8; 8] = kani::any();
    let n: usize = kani::any();
    kani::assume(n <= 8);
    let d: [u8; 2] = kani::any();
    let r = s[..n].chunks_exact(2).position(|c| c == d.as_ref());
    match r {
        Some(i) => { assert!(2 * i + 1 < n && s[2 * i] == d[0] && s[2 * i + 1] == d[1]);
                     let mut j = 0; while j < i { assert!(!(s[2 * j] == d[0] && s[2 * j + 1] == d[1])); j += 1; } }
        None => { let mut j = 0; while 2 * j + 1 < n { assert!(!(s[2 * j] == d[0] && s[2 * j + 1] == d[1])); j += 1; } }
    }
}
#[kani::proof]
fn rotr_spec() {
    let x: i32 = kani::any();
    let n: u32 = kani::any();
    kani::assume(0 < n && n < 32);
    assert!(x.rotate_right(n) == ((((x as u32) >> n) | ((x as u32) << (32 - n))) as i32));
}
#[kani::proof]
#[kani::unwind(10)]
fn identity_try_into_spec() {
    let s: [u8; 8] = kani::any();
    let n: usize = kani::any();
    kani::assume(n <= 8);
    let src: &[u8] = &s[..n];
    let r: Result<&[u8], core::convert::Infallible> = core::convert::TryInto::try_into(src);
    match r { Ok(t) => { assert!(t.len() == n); assert!(t.as_ptr() == src.as_ptr()); } Err(_) => { assert!(false); } }
}

// ---- C18: settings validation and retry arithmetic, checked on the real functions for ALL values (loop-free: complete) ----
#[kani::proof]
#[kani::stub(crate::errors::kind::GDErrorKind::context, stub_context)]
#[kani::stub(<crate::errors::error::GDError as std::convert::From<crate::errors::kind::GDErrorKind>>::from, stub_from_kind)]
#[kani::stub(alloc::fmt::format, stub_format)]
fn settings_new_rejects_exactly_zero_durations() {
    use std::time::Duration;
    fn any_dur() -> Option<Duration> {
        if kani::any() { None } else { let n: u32 = kani::any(); kani::assume(n < 1_000_000_000); Some(Duration::new(kani::any(), n)) }
    }
    let (r, w, c) = (any_dur(), any_dur(), any_dur());
    let retries: usize = kani::any();
    let is_zero = |d: Option<Duration>| match d { Some(x) => x.as_secs() == 0 && x.subsec_nanos() == 0, None => false };
    let some_zero = is_zero(r) || is_zero(w) || is_zero(c);
    match crate::protocols::types::TimeoutSettings::new(r, w, c, retries) {
        Ok(ts) => {
            assert!(!some_zero);
            assert!(ts.get_read() == r && ts.get_write() == w && ts.get_connect() == c && ts.get_retries() == retries);
            let some = Some(ts);
            assert!(crate::protocols::types::TimeoutSettings::get_retries_or_default(&some) == retries);
            assert!(crate::protocols::types::TimeoutSettings::get_read_and_write_or_defaults(&some) == (r, w));
            assert!(crate::protocols::types::TimeoutSettings::get_connect_or_default(&some) == c);
        }
        Err(e) => { assert!(some_zero); assert!(e.kind == crate::GDErrorKind::InvalidInput); core::mem::forget(e); }
    }
}
#[kani::proof]
fn settings_defaults_are_valid() {
    use crate::protocols::types::TimeoutSettings;
    let d = TimeoutSettings::default();
    let nz = |x: Option<std::time::Duration>| match x { Some(v) => !v.is_zero(), None => true };
    assert!(nz(d.get_read()) && nz(d.get_write()) && nz(d.get_connect()) && d.get_retries() == 0);
    assert!(TimeoutSettings::get_retries_or_default(&None) == 0);
    let (r, w) = TimeoutSettings::get_read_and_write_or_defaults(&None);
    assert!(nz(r) && nz(w) && nz(TimeoutSettings::get_connect_or_default(&None)));
}
// the retry helper with the largest retry counts: no overflow, and the closure IS called (first success wins)
#[kani::proof]
#[kani::unwind(3)]
#[kani::stub(crate::errors::kind::GDErrorKind::context, stub_context)]
#[kani::stub(<crate::errors::error::GDError as std::convert::From<crate::errors::kind::GDErrorKind>>::from, stub_from_kind)]
#[kani::stub(alloc::fmt::format, stub_format)]
fn retry_extreme_counts() {
    let r: usize = kani::any();
    kani::assume(r >= usize::MAX - 1);
    let mut calls = 0u8;
    let res: crate::GDResult<u8> = crate::utils::retry_on_timeout(r, || { calls += 1; Ok(7) });
    match res { Ok(v) => assert!(v == 7), Err(e) => { core::mem::forget(e); assert!(false); } }
    assert!(calls == 1);
}
// r in 0..=2 over all outcome scripts of 4 attempts: attempts, first decisive outcome, last timeout error
#[kani::proof]
#[kani::unwind(5)]
#[kani::stub(crate::errors::kind::GDErrorKind::context, stub_context)]
#[kani::stub(<crate::errors::error::GDError as std::convert::From<crate::errors::kind::GDErrorKind>>::from, stub_from_kind)]
#[kani::stub(alloc::fmt::format, stub_format)]
fn retry_small_counts_all_scripts() {
    use crate::GDErrorKind;
    let r: usize = kani::any();
    kani::assume(r <= 2);
    let script: [u8; 4] = kani::any();
    kani::assume(script[0] <= 4 && script[1] <= 4 && script[2] <= 4 && script[3] <= 4);
    let mut calls = 0usize;
    let res: crate::GDResult<u8> = crate::utils::retry_on_timeout(r, || {
        let o = if calls < 4 { script[calls] } else { 0 };
        calls += 1;
        match o {
            0 => Err(crate::GDError { kind: GDErrorKind::PacketReceive, source: None, backtrace: None }),
            1 => Err(crate::GDError { kind: GDErrorKind::PacketSend, source: None, backtrace: None }),
            2 => Err(crate::GDError { kind: GDErrorKind::PacketBad, source: None, backtrace: None }),
            3 => Err(crate::GDError { kind: GDErrorKind::PacketUnderflow, source: None, backtrace: None }),
            _ => Ok(9),
        }
    });
    let mut expect_calls = 0usize;
    let mut decided: Option<u8> = None;
    let mut i = 0;
    while i <= r { expect_calls += 1; if script[i] >= 2 { decided = Some(script[i]); break; } i += 1; }
    assert!(calls == expect_calls && calls <= r + 1);
    match (res, decided) {
        (Ok(v), Some(4)) => assert!(v == 9),
        (Err(e), Some(2)) => { assert!(e.kind == GDErrorKind::PacketBad); core::mem::forget(e); }
        (Err(e), Some(3)) => { assert!(e.kind == GDErrorKind::PacketUnderflow); core::mem::forget(e); }
        (Err(e), None) => { assert!(e.kind == if script[r] == 0 { GDErrorKind::PacketReceive } else { GDErrorKind::PacketSend }); core::mem::forget(e); }
        (Ok(_), _) => assert!(false),
        (Err(e), _) => { core::mem::forget(e); assert!(false); }
    }
}

/// Minecraft string framing on a non-ASCII host name: the length prefix counts UTF-8 BYTES (wiki.vg "String"), not characters
#[kani::proof]
#[kani::unwind(12)]
#[kani::stub(crate::errors::kind::GDErrorKind::context, stub_context)]
#[kani::stub(<crate::errors::error::GDError as std::convert::From<crate::errors::kind::GDErrorKind>>::from, stub_from_kind)]
#[kani::stub(alloc::fmt::format, stub_format)]
fn mc_as_string_multibyte() {
    let v = crate::games::minecraft::as_string("m\u{fc}n").unwrap();
    assert!(v.len() == 5);
    assert!(v[0] == 4 && v[1] == b'm' && v[2] == 0xC3 && v[3] == 0xBC && v[4] == b'n');
    core::mem::forget(v);
}
