// Kani harnesses injected (add-only) as `#[cfg(kani)] mod verif_core;` at the end of crates/lib/src/lib.rs
// of a scratch copy of the working tree.  They call the REAL functions of the crate.
#![allow(dead_code, unused_imports)]
use crate::buffer::Buffer;
use byteorder::{BigEndian, ByteOrder, LittleEndian};

// ---- stubs every harness uses (see DESIGN 1.2): error construction must not format / capture ----
pub fn stub_context<E>(kind: crate::GDErrorKind, _source: E) -> crate::GDError {
    crate::GDError { kind, source: None, backtrace: None }
}
pub fn stub_from_kind(kind: crate::GDErrorKind) -> crate::GDError {
    crate::GDError { kind, source: None, backtrace: None }
}
pub fn stub_format(_args: core::fmt::Arguments<'_>) -> String { String::new() }

/// independent reference decoder for a VarInt (wiki.vg), on u64 arithmetic
fn ref_varint(bytes: &[u8; 5]) -> Option<(i32, usize)> {
    let mut acc: u64 = 0;
    let mut k = 0usize;
    while k < 5 {
        acc += ((bytes[k] & 0x7f) as u64) * (1u64 << (7 * k));
        if k == 4 && bytes[k] & 0xf0 != 0 { return None; }
        if bytes[k] & 0x80 == 0 { return Some(((acc & 0xffff_ffff) as u32 as i32, k + 1)); }
        k += 1;
    }
    Some(((acc & 0xffff_ffff) as u32 as i32, 5))
}

// C17: VarInt round trip, complete over all 2^32 values (loops bounded by 5, unwinding assertions on)
#[kani::proof]
#[kani::unwind(7)]
#[kani::stub(crate::errors::kind::GDErrorKind::context, stub_context)]
#[kani::stub(<crate::errors::error::GDError as std::convert::From<crate::errors::kind::GDErrorKind>>::from, stub_from_kind)]
#[kani::stub(alloc::fmt::format, stub_format)]
fn varint_roundtrip_all_i32() {
    let x: i32 = kani::any();
    let enc = crate::games::minecraft::types::as_varint(x);
    assert!(enc.len() >= 1 && enc.len() <= 5);
    // canonical: every byte but the last has the continuation bit, the last has not
    let mut k = 0;
    while k < enc.len() {
        assert!((enc[k] & 0x80 != 0) == (k + 1 < enc.len()));
        k += 1;
    }
    let mut buf = Buffer::<LittleEndian>::new(&enc);
    let dec = crate::games::minecraft::types::get_varint(&mut buf);
    match dec {
        Ok(v) => { assert!(v == x); assert!(buf.remaining_length() == 0); }
        Err(e) => { core::mem::forget(e); assert!(false); }
    }
    core::mem::forget(enc);
}

// C17: the decoder agrees with the reference on every 5-byte window (all continuation classes),
// rejects exactly the over-long encodings, and consumes exactly the encoded length
#[kani::proof]
#[kani::unwind(7)]
#[kani::stub(crate::errors::kind::GDErrorKind::context, stub_context)]
#[kani::stub(<crate::errors::error::GDError as std::convert::From<crate::errors::kind::GDErrorKind>>::from, stub_from_kind)]
#[kani::stub(alloc::fmt::format, stub_format)]
fn varint_decode_matches_reference() {
    let bytes: [u8; 5] = kani::any();
    let mut buf = Buffer::<BigEndian>::new(&bytes);
    let dec = crate::games::minecraft::types::get_varint(&mut buf);
    match (dec, ref_varint(&bytes)) {
        (Ok(v), Some((rv, n))) => { assert!(v == rv); assert!(buf.current_position() == n); }
        (Err(e), None) => { core::mem::forget(e); }
        (Ok(_), None) => { assert!(false); }
        (Err(e), Some(_)) => { core::mem::forget(e); assert!(false); }
    }
}

// R5 cross-check: the specs Verus ASSUMES for byteorder are re-proved here on the real byteorder code
fn ord_nat(le: bool, s: &[u8]) -> u64 {
    let mut v: u64 = 0;
    let n = s.len();
    let mut i = 0;
    while i < n {
        let b = if le { s[n - 1 - i] } else { s[i] };
        v = v * 256 + b as u64;
        i += 1;
    }
    v
}
#[kani::proof]
#[kani::unwind(10)]
fn byteorder_specs() {
    let b: [u8; 9] = kani::any();
    assert!(LittleEndian::read_u16(&b) as u64 == ord_nat(true, &b[..2]));
    assert!(BigEndian::read_u16(&b) as u64 == ord_nat(false, &b[..2]));
    assert!(LittleEndian::read_i16(&b) == ord_nat(true, &b[..2]) as u16 as i16);
    assert!(BigEndian::read_i16(&b) == ord_nat(false, &b[..2]) as u16 as i16);
    assert!(LittleEndian::read_u32(&b) as u64 == ord_nat(true, &b[..4]));
    assert!(BigEndian::read_u32(&b) as u64 == ord_nat(false, &b[..4]));
    assert!(LittleEndian::read_i32(&b) == ord_nat(true, &b[..4]) as u32 as i32);
    assert!(BigEndian::read_i32(&b) == ord_nat(false, &b[..4]) as u32 as i32);
    assert!(LittleEndian::read_u64(&b) == ord_nat(true, &b[..8]));
    assert!(BigEndian::read_u64(&b) == ord_nat(false, &b[..8]));
    assert!(LittleEndian::read_i64(&b) == ord_nat(true, &b[..8]) as i64);
    assert!(BigEndian::read_i64(&b) == ord_nat(false, &b[..8]) as i64);
    assert!(LittleEndian::read_f32(&b).to_bits() as u64 == ord_nat(true, &b[..4]));
    assert!(BigEndian::read_f32(&b).to_bits() as u64 == ord_nat(false, &b[..4]));
    assert!(LittleEndian::read_f64(&b).to_bits() == ord_nat(true, &b[..8]));
    assert!(BigEndian::read_f64(&b).to_bits() == ord_nat(false, &b[..8]));
}
#[kani::proof]
#[kani::unwind(6)]
fn byteorder_read_u16_into_spec() {
    let b: [u8; 6] = kani::any();
    let mut d = [0u16; 3];
    LittleEndian::read_u16_into(&b, &mut d);
    let mut e = [0u16; 3];
    BigEndian::read_u16_into(&b, &mut e);
    let mut i = 0;
    while i < 3 {
        assert!(d[i] as u64 == ord_nat(true, &b[2 * i..2 * i + 2]));
        assert!(e[i] as u64 == ord_nat(false, &b[2 * i..2 * i + 2]));
        i += 1;
    }
}

// std idioms assumed in contracts/std_assumed.rs, checked on the real std at bounded length (8 bytes)
#[kani::proof]
#[kani::unwind(10)]
fn idiom_position_eq_spec() {
    let s: [u8; 8] = kani::any();
    let n: usize = kani::any();
    kani::assume(n <= 8);
    let x: u8 = kani::any();
    let r = s[..n].iter().position(|&b| b == x);
    match r {
        Some(i) => { assert!(i < n && s[i] == x); let mut j = 0; while j < i { assert!(s[j] != x); j += 1; } }
        None => { let mut j = 0; while j < n { assert!(s[j] != x); j += 1; } }
    }
}
#[kani::proof]
#[kani::unwind(10)]
fn idiom_skip_take_position_eq_spec() {
    let s: [u8; 8] = kani::any();
    let n: usize = kani::any();
    kani::assume(n <= 8);
    let t: usize = kani::any();
    kani::assume(t <= 255);
    let x: u8 = kani::any();
    let r = s[..n].iter().skip(1).take(t).position(|&b| b == x);
    // window = s[1 .. min(n, 1+t)]
    let hi = if 1 + t < n { 1 + t } else { n };
    match r {
        Some(i) => { assert!(1 + i < hi && s[1 + i] == x); let mut j = 0; while j < i { assert!(s[1 + j] != x); j += 1; } }
        None => { let mut j = 1; while j < hi { assert!(s[j] != x); j += 1; } }
    }
}
#[kani::proof]
#[kani::unwind(10)]
fn idiom_chunks2_position_eq_spec() {
    let s: [u8; 8] = kani::any();
    let n: usize = kani::any();
    kani::assume(n <= 8);
    let d: [u8; 2] = kani::any();
    let r = s[..n].chunks_exact(2).position(|c| c == d.as_ref());
    match r {
        Some(i) => { assert!(2 * i + 1 < n && s[2 * i] == d[0] && s[2 * i + 1] == d[1]);
                     let mut j = 0; while j < i { assert!(!(s[2 * j] == d[0] && s[2 * j + 1] == d[1])); j += 1; } }
        None => { let mut j = 0; while 2 * j + 1 < n { assert!(!(s[2 * j] == d[0] && s[2 * j + 1] == d[1])); j += 1; } }
    }
}
#[kani::proof]
fn rotr_spec() {
    let x: i32 = kani::any();
    let n: u32 = kani::any();
    kani::assume(0 < n && n < 32);
    assert!(x.rotate_right(n) == ((((x as u32) >> n) | ((x as u32) << (32 - n))) as i32));
}
#[kani::proof]
#[kani::unwind(10)]
fn identity_try_into_spec() {
    let s: [u8; 8] = kani::any();
    let n: usize = kani::any();
    kani::assume(n <= 8);
    let src: &[u8] = &s[..n];
    let r: Result<&[u8], core::convert::Infallible> = core::convert::TryInto::try_into(src);
    match r { Ok(t) => { assert!(t.len() == n); assert!(t.as_ptr() == src.as_ptr()); } Err(_) => { assert!(false); } }
}
