// Quake: remove_wrapping_quotes on every ASCII string of up to 3 characters over the alphabet {'"', 'a'} (BOUNDED stand-in: the
// function is str-pattern code outside Verus's subset).  Injected add-only (cfg(kani)) at the end of protocols/quake/client.rs.
#![allow(dead_code, unused_imports)]
use super::*;

#[kani::proof]
#[kani::unwind(8)]
fn quake_remove_wrapping_quotes_small() {
    let n: usize = kani::any();
    kani::assume(n <= 3);
    let mut buf = [b'a'; 3];
    if kani::any() { buf[0] = b'"'; }
    if kani::any() { buf[1] = b'"'; }
    if kani::any() { buf[2] = b'"'; }
    // ASCII bytes are valid UTF-8
    let s: &str = unsafe { core::str::from_utf8_unchecked(&buf[.. n]) };
    let r = remove_wrapping_quotes(&s);
    let strip = n >= 2 && buf[0] == b'"' && buf[n - 1] == b'"';
    let rb = r.as_bytes();
    if strip {
        // wrapping quotes removed, nothing else touched (a token that is exactly two quotes becomes the empty string)
        assert!(rb.len() == n - 2);
        if n == 3 { assert!(rb[0] == buf[1]); }
    } else {
        assert!(rb.len() == n);
        let mut i = 0;
        while i < n {
            assert!(rb[i] == buf[i]);
            i += 1;
        }
    }
}
