// C10 wiring harness for ValveProtocol::get_request_data (child module of protocols/valve/protocol.rs so that private
// items are reachable).  The `_impl` is replaced by a scripted recorder; the socket is never touched.
use super::*;
use crate::GDErrorKind;

static mut CALLS: usize = 0;
static mut ARGS_OK: bool = true;
static mut SCRIPT: [u8; 6] = [0; 6];     // per attempt: 0 = nothing received, 1 = could not send, 2 = malformed (PacketBad),
                                          // 3 = malformed (PacketUnderflow), 4 = valid reply

fn mk_err(kind: GDErrorKind) -> crate::GDError { crate::GDError { kind, source: None, backtrace: None } }

fn scripted_impl(_p: &mut ValveProtocol, _engine: &Engine, protocol: u8, kind: u8, payload: Vec<u8>) -> GDResult<Vec<u8>> {
    unsafe {
        let i = CALLS;
        CALLS += 1;
        // every attempt must carry the caller's arguments unchanged
        if !(protocol == 17 && kind == 0x55 && payload.len() == 3 && payload[0] == 1 && payload[1] == 2 && payload[2] == 3) { ARGS_OK = false; }
        core::mem::forget(payload);
        let o = if i < 6 { SCRIPT[i] } else { 0 };
        match o {
            0 => Err(mk_err(GDErrorKind::PacketReceive)),
            1 => Err(mk_err(GDErrorKind::PacketSend)),
            2 => Err(mk_err(GDErrorKind::PacketBad)),
            3 => Err(mk_err(GDErrorKind::PacketUnderflow)),
            _ => Ok(Vec::new()),
        }
    }
}

#[kani::proof]
#[kani::unwind(7)]
#[kani::stub(ValveProtocol::get_request_data_impl, scripted_impl)]
fn retry_wiring_valve() {
    let r: usize = kani::any();
    kani::assume(r <= 3);
    let script: [u8; 6] = kani::any();
    kani::assume(script[0] <= 4 && script[1] <= 4 && script[2] <= 4 && script[3] <= 4 && script[4] <= 4 && script[5] <= 4);
    unsafe { SCRIPT = script; CALLS = 0; ARGS_OK = true; }
    let mut p: ValveProtocol = unsafe { core::mem::zeroed() };
    p.retry_count = r;
    let engine = Engine::new(440);
    let res = p.get_request_data(&engine, 17, 0x55, vec![1, 2, 3]);
    // reference: the first attempt that is not a timeout decides; at most r + 1 attempts
    let mut expect_calls = 0usize;
    let mut decided: Option<u8> = None;
    let mut i = 0;
    while i <= r {
        expect_calls += 1;
        if script[i] >= 2 { decided = Some(script[i]); break; }
        i += 1;
    }
    unsafe {
        assert!(CALLS == expect_calls);
        assert!(CALLS <= r + 1);
        assert!(ARGS_OK);
    }
    match (res, decided) {
        (Ok(v), Some(4)) => { core::mem::forget(v); }
        (Err(e), Some(2)) => { assert!(e.kind == GDErrorKind::PacketBad); core::mem::forget(e); }
        (Err(e), Some(3)) => { assert!(e.kind == GDErrorKind::PacketUnderflow); core::mem::forget(e); }
        (Err(e), None) => {
            // all r + 1 attempts timed out: the error is the last attempt's receive/send-class error
            assert!(e.kind == if script[r] == 0 { GDErrorKind::PacketReceive } else { GDErrorKind::PacketSend });
            core::mem::forget(e);
        }
        (Ok(v), _) => { core::mem::forget(v); assert!(false); }
        (Err(e), _) => { core::mem::forget(e); assert!(false); }
    }
    core::mem::forget(p);
}
