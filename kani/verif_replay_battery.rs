// Boundary battery executed on the REAL packet reader (lib/replay_search.py injects this file, add-only and cfg(test), as a child
// module of crates/lib/src/buffer.rs in a scratch copy and runs it with `cargo test`).  Every line printed with the prefix
// VERIF-REPLAY-FAIL is a concrete input on which the real code panicked or left the cursor past the end of the data.
use super::*;
use byteorder::{BigEndian, LittleEndian};
use std::panic::{catch_unwind, AssertUnwindSafe};

fn packets() -> Vec<Vec<u8>> {
    let mut v: Vec<Vec<u8>> = vec![
        vec![], vec![0], vec![0, 0], vec![b'a'], b"ab".to_vec(), b"ab\0".to_vec(), b"ab\0c".to_vec(), vec![5, b'a'], vec![1, b'a'], vec![0, b'a'],
        vec![255], vec![255, 255], vec![0x41, 0x00, 0x42], vec![0x41, 0x00, 0x42, 0x00], vec![0x41, 0x00, 0x00, 0x00], vec![0x00, 0x41, 0x00],
        vec![0xC3], vec![0xC3, 0x28, 0x00], vec![2, 0xC3, 0x28], vec![3, b'a', b'b'], vec![0x80, 0x01], vec![0x85, 0x01, 0x02, 0x03],
        vec![0x1c, b'x', b'y'], vec![28; 3], vec![0x81, 0x01, 0x41, 0x00], vec![0xFF, 0xFF, 0xFF, 0xFF, 0x0F], vec![0xFF, 0xFF, 0xFF, 0xFF, 0xFF],
        vec![0x80, 0x80, 0x80, 0x80, 0x10], vec![0x05, b'h', b'i'], vec![0x7F],
    ];
    for n in 1 ..= 6usize {
        v.push(vec![b'x'; n]);
        v.push(vec![0xFF; n]);
    }
    v
}

fn run<D: StringDecoder, B: ByteOrder>(name: &str, fails: &mut usize) {
    for p in packets() {
        let r = catch_unwind(AssertUnwindSafe(|| {
            let mut b = Buffer::<B>::new(&p);
            let _ = b.read_string::<D>(None);
            if b.current_position() > b.data_length() { return Err("cursor past the end after read_string".to_string()); }
            let _ = b.remaining_length();
            let _ = b.read::<u8>();
            let _ = b.read_string::<D>(None);
            if b.current_position() > b.data_length() { return Err("cursor past the end after the second read_string".to_string()); }
            let _ = b.remaining_bytes().len();
            let _ = b.read::<u16>();
            let _ = b.read::<u32>();
            Ok(())
        }));
        match r {
            Ok(Ok(())) => {}
            Ok(Err(m)) => { *fails += 1; println!("VERIF-REPLAY-FAIL api=read_string::<{}> packet={:?} observed={}", name, p, m); }
            Err(e) => {
                *fails += 1;
                let m = e.downcast_ref::<String>().cloned().or_else(|| e.downcast_ref::<&str>().map(|s| s.to_string())).unwrap_or_default();
                println!("VERIF-REPLAY-FAIL api=read_string::<{}> packet={:?} observed=panic: {}", name, p, m);
            }
        }
    }
}

#[test]
fn verif_replay_battery() {
    std::panic::set_hook(Box::new(|_| {}));
    let mut fails = 0usize;
    run::<Utf8Decoder, LittleEndian>("Utf8Decoder", &mut fails);
    run::<Utf8LengthPrefixedDecoder, LittleEndian>("Utf8LengthPrefixedDecoder", &mut fails);
    run::<Utf16Decoder<LittleEndian>, LittleEndian>("Utf16Decoder<LittleEndian>", &mut fails);
    run::<Utf16Decoder<BigEndian>, BigEndian>("Utf16Decoder<BigEndian>", &mut fails);
    run::<crate::protocols::unreal2::Unreal2StringDecoder, LittleEndian>("Unreal2StringDecoder", &mut fails);
    for p in packets() {
        let r = catch_unwind(AssertUnwindSafe(|| {
            let mut b = Buffer::<LittleEndian>::new(&p);
            let _ = crate::games::minecraft::get_varint(&mut b);
            if b.current_position() > b.data_length() { return Err("cursor past the end after get_varint".to_string()); }
            let mut b = Buffer::<LittleEndian>::new(&p);
            let _ = crate::games::minecraft::get_string(&mut b);
            if b.current_position() > b.data_length() { return Err("cursor past the end after get_string".to_string()); }
            let _ = b.remaining_length();
            Ok(())
        }));
        match r {
            Ok(Ok(())) => {}
            Ok(Err(m)) => { fails += 1; println!("VERIF-REPLAY-FAIL api=minecraft::get_varint/get_string packet={:?} observed={}", p, m); }
            Err(e) => {
                fails += 1;
                let m = e.downcast_ref::<String>().cloned().or_else(|| e.downcast_ref::<&str>().map(|s| s.to_string())).unwrap_or_default();
                println!("VERIF-REPLAY-FAIL api=minecraft::get_varint/get_string packet={:?} observed=panic: {}", p, m);
            }
        }
    }
    println!("VERIF-REPLAY-DONE fails={}", fails);
}
