// Minecraft Java framing (C09): Java::send prefixes the packet with its length as a VarInt (wiki.vg "Packet format"), whatever the
// length.  Injected add-only (cfg(kani)) at the end of games/minecraft/protocol/java.rs; TcpSocket::send is replaced by a recorder
// that compares with the reference framing and cuts the path.
#![allow(dead_code, unused_imports, static_mut_refs)]
use super::*;

pub fn stub_context<E>(kind: crate::GDErrorKind, _source: E) -> crate::GDError { crate::GDError { kind, source: None, backtrace: None } }
pub fn stub_from_kind(kind: crate::GDErrorKind) -> crate::GDError { crate::GDError { kind, source: None, backtrace: None } }
pub fn stub_format(_args: core::fmt::Arguments<'_>) -> String { String::new() }

static mut LEN: usize = 0;
fn rec_send(_s: &mut crate::socket::TcpSocketImpl, data: &[u8]) -> GDResult<()> {
    let n = unsafe { LEN };
    // reference VarInt of n (n < 2^14 here): 7 bits per byte, least significant group first, continuation bit on all but the last
    let (want, k): ([u8; 2], usize) = if n < 128 { ([n as u8, 0], 1) } else { ([(n & 0x7f) as u8 | 0x80, (n >> 7) as u8], 2) };
    assert!(data.len() == k + n, "frame = VarInt(length) + payload");
    assert!(data[0] == want[0], "first length byte");
    if k == 2 { assert!(data[1] == want[1], "second length byte"); }
    if n > 0 { assert!(data[k] == 7 && data[k + n - 1] == 7, "payload follows the length unchanged"); }
    kani::assume(false);
    Ok(())
}

#[kani::proof]
#[kani::unwind(8)]
#[kani::stub(<crate::socket::TcpSocketImpl as crate::socket::Socket>::send, rec_send)]
#[kani::stub(crate::errors::kind::GDErrorKind::context, stub_context)]
#[kani::stub(<crate::errors::error::GDError as std::convert::From<crate::errors::kind::GDErrorKind>>::from, stub_from_kind)]
#[kani::stub(alloc::fmt::format, stub_format)]
fn java_send_frames_with_varint_length() {
    let which: u8 = kani::any();
    let n: usize = match which { 0 => 0, 1 => 1, 2 => 127, 3 => 128, 4 => 213, _ => 300 };
    unsafe { LEN = n; }
    let mut j: core::mem::MaybeUninit<Java> = core::mem::MaybeUninit::zeroed();
    let jr: &mut Java = unsafe { &mut *j.as_mut_ptr() };
    let r = jr.send(vec![7u8; n]);
    core::mem::forget(r);
    assert!(false, "Java::send returned without writing to the socket");
}
