// Kani harnesses discharging the two contracts the Verus unit U-VALVE assumes about request construction (C09).
// Injected add-only (cfg(kani)) at the end of protocols/valve/types.rs.
#![allow(dead_code, unused_imports)]
use super::*;

/// Packet::to_bytes == header big-endian, kind, payload (contract `r@ == enc_u32(false, header).push(kind) + payload@` of U-VALVE)
#[kani::proof]
#[kani::unwind(10)]
fn valve_packet_to_bytes() {
    let header: u32 = kani::any();
    let kind: u8 = kani::any();
    let n: usize = kani::any();
    kani::assume(n <= 6);
    let mut payload: Vec<u8> = Vec::new();
    let mut i = 0;
    while i < n {
        payload.push(kani::any());
        i += 1;
    }
    let p = Packet { header, kind, payload };
    let b = p.to_bytes();
    assert!(b.len() == 5 + n);
    assert!(b[0] == (header >> 24) as u8 && b[1] == (header >> 16) as u8 && b[2] == (header >> 8) as u8 && b[3] == header as u8);
    assert!(b[4] == kind);
    let mut j = 0;
    while j < n {
        assert!(b[5 + j] == p.payload[j]);
        j += 1;
    }
    core::mem::forget(b);
    core::mem::forget(p);
}

/// Request::get_default_payload == the spec function default_payload of U-VALVE; request kinds are the A2S codes
#[kani::proof]
#[kani::unwind(24)]
fn valve_default_payload() {
    assert!(Request::Info as u8 == 0x54 && Request::Players as u8 == 0x55 && Request::Rules as u8 == 0x56);
    let k: u8 = kani::any();
    match k {
        0 => {
            let v = Request::Info.get_default_payload();
            let want = b"Source Engine Query\0";
            assert!(v.len() == want.len());
            let mut i = 0;
            while i < want.len() {
                assert!(v[i] == want[i]);
                i += 1;
            }
            core::mem::forget(v);
        }
        1 => {
            let v = Request::Players.get_default_payload();
            assert!(v.len() == 4 && v[0] == 0xFF && v[1] == 0xFF && v[2] == 0xFF && v[3] == 0xFF);
            core::mem::forget(v);
        }
        _ => {
            let v = Request::Rules.get_default_payload();
            assert!(v.len() == 4 && v[0] == 0xFF && v[1] == 0xFF && v[2] == 0xFF && v[3] == 0xFF);
            core::mem::forget(v);
        }
    }
}
