"""Property check driver: extraction -> Verus / Kani -> verdict -> evidence / replay files."""
import hashlib
import json
import os
import re
import subprocess
import sys
import time

HERE = os.path.dirname(os.path.abspath(__file__))
VERIF = os.path.dirname(HERE)
sys.path.insert(0, HERE)
import extract
import verus_run
from rsparse import AnchorError
import checks as CH

REPO = os.environ.get('VERIF_REPO', '/repo')


def load_known():
    """known_findings.txt:  `finding: property=<id> obligation=<prefix> :: <what>`  /  `fixed: ...` (ignored)"""
    p = os.path.join(VERIF, 'known_findings.txt')
    out = []
    if os.path.exists(p):
        for l in open(p):
            l = l.strip()
            mm = re.match(r'^finding:\s*property=(\S+)\s+obligation=(.+?)\s+::\s+(.*)$', l)
            if mm:
                out.append({'status': 'finding', 'property': mm.group(1), 'obligation': mm.group(2).strip(), 'what': mm.group(3)})
    return out


def scan_assumptions(gen_path):
    """mechanical scan for unchecked assumptions in a generated file"""
    txt = open(gen_path).read()
    found = []
    for mm in re.finditer(r'(assume_specification[^\[]*\[(.+?)\]\s*\(|#\[verifier::external_body\]\s*(?:pub\s+)?(?:fn|struct)\s+(\w+)|pub\s+axiom\s+fn\s+(\w+)|\buninterp\s+spec\s+fn\s+(\w+)|\bassume\s*\(|\badmit\s*\(|#\[verifier::external\]\s*([^{;]*))', txt):
        if mm.group(2):
            found.append('assume_specification ' + re.sub(r'\s+', ' ', mm.group(2)).strip())
        elif mm.group(3):
            found.append('external_body ' + mm.group(3))
        elif mm.group(4):
            found.append('axiom ' + mm.group(4))
        elif mm.group(5):
            found.append('uninterpreted ' + mm.group(5))
        elif mm.group(6) is not None:
            found.append('external ' + re.sub(r'\s+', ' ', mm.group(6)).strip())
        else:
            found.append(mm.group(0).strip())
    return sorted(set(found))


def check_assumption_lock(unit, found):
    """every assumption in a generated unit must be listed in contracts/ASSUMPTIONS.lock"""
    p = os.path.join(VERIF, 'contracts', 'ASSUMPTIONS.lock')
    allowed = set()
    if os.path.exists(p):
        allowed = set(l.strip() for l in open(p) if l.strip() and not l.startswith('#'))
    return [a for a in found if a not in allowed]


def run_verus_unit(unit, tier, seed):
    """returns (status, result dict, meta)"""
    try:
        gen, meta = extract.process(unit)
    except AnchorError as e:
        return 'undecided', {'reason': f'anchor: {e}', 'failures': [], 'unknown': [], 'unsupported': []}, None
    rlimit = 30 if tier == 'quick' else 150
    res = verus_run.run(gen, meta, rlimit=rlimit, multiple_errors=8 if tier == 'thorough' else 4, seed=None, threads=8)
    if res['status'] == 'unknown':
        # retry with 10x rlimit and other seeds (DESIGN 2.6)
        for s in (seed or 1, (seed or 1) + 17):
            r2 = verus_run.run(gen, meta, rlimit=rlimit * 10, multiple_errors=4, seed=s, threads=8, timeout=1800)
            if r2['status'] != 'unknown':
                r2['retries'] = res.get('retries', 0) + 1
                res = r2
                break
    res['assumptions'] = scan_assumptions(gen)
    res['unlisted_assumptions'] = check_assumption_lock(unit, res['assumptions'])
    return res['status'], res, meta


def tree_id():
    try:
        head = subprocess.run(['git', '-C', REPO, 'rev-parse', 'HEAD'], capture_output=True, text=True).stdout.strip()
        diff = subprocess.run(['git', '-C', REPO, 'diff', 'HEAD'], capture_output=True, text=True).stdout
        return head[:12] + ('+dirty:' + hashlib.sha1(diff.encode()).hexdigest()[:8] if diff else '')
    except Exception:
        return 'unknown'


def main(argv):
    import argparse
    ap = argparse.ArgumentParser()
    ap.add_argument('prop')
    ap.add_argument('--tier', default=os.environ.get('VERIF_TIER', 'quick'))
    ap.add_argument('--replay')
    ap.add_argument('--no-kani', action='store_true')
    a = ap.parse_args(argv)
    prop = a.prop
    tier = a.tier if a.tier in ('quick', 'thorough') else 'quick'
    seed = int(os.environ.get('VERIF_SEED', '0') or 0)
    if a.replay:
        import replay
        return replay.run_replay_file(a.replay)
    if prop not in CH.PROPS:
        print(f'property {prop} is not claimed (see MANIFEST.not_applicable)')
        return 2
    cfg = CH.PROPS[prop]
    t0 = time.time()
    known = [k for k in load_known() if k.get('property') == prop]
    violations, undecided, known_hits = [], [], []
    units_ev = []
    fn_under_contract = []
    total_fn_ok = total_fine = 0
    smt_ms = 0
    assumptions = set()
    rewrites = []
    samples = []
    seen_fns = set()
    for unit in cfg.get('units', []):
        status, res, meta = run_verus_unit(unit, tier, seed)
        uev = {'unit': unit, 'engine': 'verus', 'status': status, 'wall_s': round(res.get('wall_s', 0), 2),
               'functions_verified': res.get('functions_verified', 0), 'obligations_fine': res.get('obligations_fine', 0),
               'smt_ms': res.get('smt_ms', 0)}
        units_ev.append(uev)
        if meta:
            for f in meta['functions']:
                if prop in f['props']:
                    fn_under_contract.append(f['fn'] + ' [verus]')
            rewrites += [f'{r[0]} x{r[2]} in {r[1]}' for r in meta['rewrites'] if r[0] != 'R6']
        assumptions.update(res.get('assumptions', []))
        # distinct functions only: an imported unit is re-verified inside the importing unit, count it once
        new_ok = 0
        for fn, t in res.get('fn_times', {}).items():
            key = fn.split('::', 1)[-1]
            if t.get('ok') and key not in seen_fns:
                seen_fns.add(key)
                new_ok += 1
        uev['functions_verified_new'] = new_ok
        total_fn_ok += new_ok
        share = (new_ok / res['functions_verified']) if res.get('functions_verified') else 0
        total_fine += int(res.get('obligations_fine', 0) * share)
        smt_ms += res.get('smt_ms', 0)
        if status == 'undecided':
            undecided.append({'unit': unit, 'reason': res.get('reason')})
            continue
        if res.get('unlisted_assumptions'):
            undecided.append({'unit': unit, 'reason': 'assumptions not in ASSUMPTIONS.lock: ' + '; '.join(res['unlisted_assumptions'])})
        for ob in res.get('unsupported', []):
            undecided.append({'unit': unit, 'reason': 'verus rejected the unit: ' + ob.get('message', ''), 'detail': ob.get('rendered', '')[:1500]})
        for ob in res.get('unknown', []):
            if ob.get('props') is None or prop in ob['props']:
                undecided.append({'unit': unit, 'reason': 'solver gave up (rlimit) on ' + ob['id']})
        for ob in res.get('failures', []):
            # a failed obligation counts for this property if its function is tagged with it, or if the function belongs to
            # an imported (foundation) unit: every proof in this unit stands on those contracts
            is_alloc = 'alloc_ok' in ob.get('clause', '') or 'ALLOC_COUNT_MAX' in ob.get('clause', '')
            foundation = bool(ob.get('imported')) and not is_alloc
            if ob.get('props') is not None and prop not in ob['props'] and not foundation:
                continue
            k = next((k for k in known if k.get('status') == 'finding' and ob['id'].startswith(k['obligation'])), None)
            if k:
                known_hits.append((k, ob))
            else:
                violations.append({'unit': unit, 'engine': 'verus', **ob})
        # samples: names of a few discharged functions
        tagged = set(f['fn'].split('::')[-1] for f in (meta['functions'] if meta else []) if prop in f['props'])
        ordered = sorted(list(res.get('fn_times', {}).items())[:600], key=lambda kv: 0 if kv[0].split('::')[-1] in tagged else 1)
        for fn, t in ordered:
            if t.get('ok') and len(samples) < 12 and '::' in fn and not fn.startswith('vstd'):
                samples.append({'obligation': f'{unit}: {fn} satisfies its contract and is panic-free', 'backend': 'verus/z3', 'ms': t['ms']})
    kani_ev = None
    if cfg.get('kani') and not a.no_kani:
        import kani_run
        kani_sets_to_run = [cfg['kani']] + (cfg.get('kani_thorough', []) if tier == 'thorough' else [])
        kani_ev = []
        for kset in kani_sets_to_run:
            kres = kani_run.run_harnesses(kset, tier=tier, prop=prop)
            kani_ev.append(kres['evidence'])
            for h in kres['harness_results']:
                if h['status'] == 'success':
                    total_fn_ok += 1
                    total_fine += h.get('checks', 0)
                    if len(samples) < 20:
                        samples.append({'obligation': 'kani harness ' + h['name'] + ': ' + h.get('what', ''), 'backend': 'kani/cbmc',
                                        's': h.get('time_s'), 'bounded': h.get('bounded', False)})
                elif h['status'] == 'failure':
                    ob = {'id': f'KANI::{h["name"]}::{h.get("failed_check", "")}'[:300], 'message': h.get('failed_desc', 'kani FAILURE'),
                          'rendered': h.get('log_tail', ''), 'fn': h.get('target'), 'kind': 'refuted', 'clause': h.get('failed_check', ''),
                          'site': '', 'counterexample': h.get('counterexample'), 'replayed': h.get('replayed')}
                    k = next((k for k in known if k.get('status') == 'finding' and ob['id'].startswith(k['obligation'])), None)
                    if k:
                        known_hits.append((k, ob))
                    else:
                        violations.append({'unit': 'KANI', 'engine': 'kani', **ob})
                else:
                    undecided.append({'unit': 'KANI', 'reason': f'harness {h["name"]}: {h["status"]} {h.get("reason", "")}'})
            for h in kres['harness_results']:
                fn_under_contract.append(h.get('target', h['name']) + (' [kani bounded]' if h.get('bounded') else ' [kani]'))
            assumptions.update(kres.get('assumptions', []))
            if kres.get('error'):
                undecided.append({'unit': 'KANI', 'reason': kres['error']})

    # ---- verdict ----
    exit_code = 0
    lines = []
    for k, ob in known_hits:
        lines.append(f'KNOWN-FINDING: property={prop} {k.get("what", ob["id"])}')
    replay_paths = []
    if violations:
        import replay
        for v in violations:
            path, reproduced = replay.make_replay(prop, v, tier)
            replay_paths.append(path)
            suffix = '' if reproduced else ' no-failing-input-found'
            lines.append(f'VIOLATION property={prop} replay={path}{suffix}')
        exit_code = 1
    elif undecided:
        for u in undecided:
            lines.append(f'UNDECIDED property={prop} unit={u["unit"]} {u["reason"]}')
        exit_code = 2
    wall = time.time() - t0
    # obligations the claim of this run rests on: everything generated, EXCEPT the functions whose failing obligation is a
    # recorded known finding: those are not claimed at all (they are reported by name in known_findings_reported and by a
    # KNOWN-FINDING line) and so are counted separately, not as undischarged parts of the proof-level claim
    obligations = total_fn_ok + len(violations)
    known_finding_fns = len(set(ob.get('fn') for _, ob in known_hits))
    ev = {
        'property_id': prop, 'tier': tier, 'seed': seed, 'level': cfg.get('level', 'proof'),
        'coverage': {
            'obligations': obligations,
            'discharged': total_fn_ok,
            'obligations_fine_grained': total_fine,
            'counting_rule': 'obligations = functions (exec bodies, lemmas, spec termination) for which Verus generated a verification condition, plus Kani harnesses, MINUS functions whose failing obligation is a recorded known finding (counted in functions_excluded_because_of_a_known_finding and named in known_findings_reported: they are not part of the claim); discharged = those that verified / ended SUCCESSFUL; obligations_fine_grained = number of individually reported proof obligations (AIR `location` nodes: call preconditions, overflow, index, postcondition clauses, invariants, termination) + CBMC property checks',
            'checker_cmd': f'./check {prop} --tier {tier}   (runs: verus <unit>.rs --rlimit .. --multiple-errors .. ; cargo kani --harness ..)',
            'trusted_base': sorted(assumptions),
            'functions_under_contract': sorted(set(fn_under_contract)),
            'units': units_ev,
            'kani': kani_ev,
            'solver_time_ms': smt_ms,
            'extraction_rewrites': sorted(set(rewrites)),
            'samples': samples[:20] or [{'note': 'no obligation discharged'}],
            'repo_tree': tree_id(),
            'undecided': undecided,
            'known_findings_reported': [k.get('what') for k, _ in known_hits],
            'functions_excluded_because_of_a_known_finding': known_finding_fns,
            'bounded_stand_ins': cfg.get('bounded', []),
            'not_covered': cfg.get('not_covered', []),
        },
        'assumptions': sorted(set(cfg.get('assumptions', []))) + sorted(assumptions),
        'wall_s': round(wall, 2),
        'violations': len(violations),
    }
    if ev['coverage']['discharged'] == 0:
        # vacuity guard: a run that discharged nothing is never a pass
        if exit_code == 0:
            exit_code = 2
            lines.append(f'UNDECIDED property={prop} no obligation was generated (vacuous run)')
        ev['coverage']['evaluations'] = 1
        ev['coverage']['distinct_nontrivial'] = 0
    if not os.environ.get('VERIF_NO_EVIDENCE'):    # (set only by tools_seed_eval.py: seeded runs must not overwrite the evidence)
        os.makedirs(os.path.join(VERIF, 'evidence'), exist_ok=True)
        with open(os.path.join(VERIF, 'evidence', prop + '.json'), 'w') as f:
            json.dump(ev, f, indent=1)
    for l in lines:
        print(l)
    print(f'{prop}: {"OK" if exit_code == 0 else "VIOLATION" if exit_code == 1 else "UNDECIDED"} '
          f'discharged={total_fn_ok} fine={total_fine} violations={len(violations)} known={len(known_hits)} wall={wall:.1f}s')
    return exit_code


if __name__ == '__main__':
    sys.exit(main(sys.argv[1:]))
