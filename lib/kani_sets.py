"""Registry of Kani harnesses (files in /verif/kani) and which property uses which."""

MODULES = {
    'verif_core.rs': {'owner': 'crates/lib/src/lib.rs', 'name': 'verif_core'},
}
MODULES['verif_common.rs'] = {'owner': 'crates/lib/src/lib.rs', 'name': 'verif_common'}
GENERATED = {}

HARNESSES = {
    'varint_roundtrip_all_i32': {'module': 'verif_core.rs', 'target': 'games::minecraft::types::{as_varint, get_varint}',
        'what': 'get_varint(as_varint(x)) == x, canonical continuation bits, 1..=5 bytes, for ALL 2^32 x (loops <= 5, unwinding assertions on: complete)'},
    'varint_decode_matches_reference': {'module': 'verif_core.rs', 'target': 'games::minecraft::types::get_varint',
        'what': 'decoder == independent u64 reference on every 5-byte window; rejects exactly the over-long encodings; consumes the encoded length (complete over 2^40 inputs)'},
    'byteorder_specs': {'module': 'verif_core.rs', 'target': 'byteorder::{LittleEndian,BigEndian}::read_{u,i}{16,32,64}, read_f{32,64}',
        'what': 'the specs Verus assumes (R5) hold on the real byteorder code for all byte values (complete)'},
    'byteorder_read_u16_into_spec': {'module': 'verif_core.rs', 'target': 'byteorder::ByteOrder::read_u16_into',
        'what': 'assumed spec of read_u16_into on 3 units', 'bounded': True, 'bound': '3 u16 units'},
    'idiom_position_eq_spec': {'module': 'verif_core.rs', 'target': 'core::slice::Iter::position idiom (R8:position_eq)',
        'what': 'assumed idiom spec vs real std', 'bounded': True, 'bound': 'slices up to 8 bytes'},
    'idiom_skip_take_position_eq_spec': {'module': 'verif_core.rs', 'target': 'iter().skip(1).take(n).position idiom (R8)',
        'what': 'assumed idiom spec vs real std', 'bounded': True, 'bound': 'slices up to 8 bytes'},
    'idiom_chunks2_position_eq_spec': {'module': 'verif_core.rs', 'target': 'chunks_exact(2).position idiom (R8)',
        'what': 'assumed idiom spec vs real std', 'bounded': True, 'bound': 'slices up to 8 bytes'},
    'rotr_spec': {'module': 'verif_core.rs', 'target': 'i32::rotate_right', 'what': 'assumed spec == core for all x, 0<n<32 (complete)'},
    'identity_try_into_spec': {'module': 'verif_core.rs', 'target': '<&[u8] as TryInto<&[u8]>>::try_into (R8:identity_try_into)',
        'what': 'identity conversion', 'bounded': True, 'bound': 'slices up to 8 bytes'},
}

HARNESSES['common_valve'] = {'module': 'verif_common.rs', 'target': 'impl CommonResponse for valve::Response, impl CommonPlayer for valve::ServerPlayer',
    'what': 'accessors return the very fields (pointer identity for strings, equality for all scalar values), as_json == accessors, as_original is self', 'bounded': True, 'bound': '1 player'}
SETS = {
    'C15': ['common_valve'],
    'C17': ['varint_roundtrip_all_i32', 'varint_decode_matches_reference', 'byteorder_specs', 'byteorder_read_u16_into_spec',
            'idiom_position_eq_spec', 'idiom_skip_take_position_eq_spec', 'idiom_chunks2_position_eq_spec', 'rotr_spec',
            'identity_try_into_spec'],
}
