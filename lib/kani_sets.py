"""Registry of Kani harnesses (files in /verif/kani) and which property uses which."""

MODULES = {
    'verif_core.rs': {'owner': 'crates/lib/src/lib.rs', 'name': 'verif_core'},
}
MODULES['verif_common.rs'] = {'owner': 'crates/lib/src/lib.rs', 'name': 'verif_common'}
GENERATED = {}

HARNESSES = {
    'varint_roundtrip_all_i32': {'module': 'verif_core.rs', 'target': 'games::minecraft::types::{as_varint, get_varint}',
        'what': 'get_varint(as_varint(x)) == x, canonical continuation bits, 1..=5 bytes, for ALL 2^32 x (loops <= 5, unwinding assertions on: complete)'},
    'varint_decode_matches_reference': {'module': 'verif_core.rs', 'target': 'games::minecraft::types::get_varint',
        'what': 'decoder == independent u64 reference on every 5-byte window; rejects exactly the over-long encodings; consumes the encoded length (complete over 2^40 inputs)'},
    'byteorder_specs': {'module': 'verif_core.rs', 'target': 'byteorder::{LittleEndian,BigEndian}::read_{u,i}{16,32,64}, read_f{32,64}',
        'what': 'the specs Verus assumes (R5) hold on the real byteorder code for all byte values (complete)'},
    'byteorder_read_u16_into_spec': {'module': 'verif_core.rs', 'target': 'byteorder::ByteOrder::read_u16_into',
        'what': 'assumed spec of read_u16_into on 3 units', 'bounded': True, 'bound': '3 u16 units'},
    'idiom_position_eq_spec': {'module': 'verif_core.rs', 'target': 'core::slice::Iter::position idiom (R8:position_eq)',
        'what': 'assumed idiom spec vs real std', 'bounded': True, 'bound': 'slices up to 8 bytes'},
    'idiom_skip_take_position_eq_spec': {'module': 'verif_core.rs', 'target': 'iter().skip(1).take(n).position idiom (R8)',
        'what': 'assumed idiom spec vs real std', 'bounded': True, 'bound': 'slices up to 8 bytes'},
    'idiom_chunks2_position_eq_spec': {'module': 'verif_core.rs', 'target': 'chunks_exact(2).position idiom (R8)',
        'what': 'assumed idiom spec vs real std', 'bounded': True, 'bound': 'slices up to 8 bytes'},
    'rotr_spec': {'module': 'verif_core.rs', 'target': 'i32::rotate_right', 'what': 'assumed spec == core for all x, 0<n<32 (complete)'},
    'identity_try_into_spec': {'module': 'verif_core.rs', 'target': '<&[u8] as TryInto<&[u8]>>::try_into (R8:identity_try_into)',
        'what': 'identity conversion', 'bounded': True, 'bound': 'slices up to 8 bytes'},
}

HARNESSES['common_valve_old'] = {'module': 'verif_common.rs', 'target': 'impl CommonResponse for valve::Response, impl CommonPlayer for valve::ServerPlayer',
    'what': 'accessors return the very fields (pointer identity for strings, equality for all scalar values), as_json == accessors, as_original is self', 'bounded': True, 'bound': '1 player'}
SETS = {
    'C15': ['common_valve'],
    'C17': ['varint_roundtrip_all_i32', 'varint_decode_matches_reference', 'byteorder_specs', 'byteorder_read_u16_into_spec',
            'idiom_position_eq_spec', 'idiom_skip_take_position_eq_spec', 'idiom_chunks2_position_eq_spec', 'rotr_spec',
            'identity_try_into_spec'],
}

COMMON = ['common_valve', 'common_gamespy_one', 'common_gamespy_two', 'common_gamespy_three', 'common_java', 'common_bedrock', 'common_bedrock_no_map', 'common_bedrock_game_mode', 'common_quake_one', 'common_quake_two', 'common_unreal2', 'common_epic', 'common_ffow', 'common_theship', 'common_theship_game_version', 'common_jc2m', 'common_savage2', 'common_minetest', 'common_mindustry', 'common_eco']
for _n in COMMON:
    HARNESSES[_n] = {'module': 'verif_common.rs', 'target': 'impl CommonResponse / CommonPlayer: ' + _n[7:],
        'what': 'accessors return the very fields RESPONSES.md assigns to them (pointer identity for strings, equality for all scalar values), as_json() equals the accessors, as_original() is the same object', 'bounded': True, 'bound': 'lists of one player; string contents fixed (identity is content independent); all numeric/bool fields symbolic'}
SETS['C15'] = COMMON
# scratch-copy tweak needed to compile the epic / minetest types (features off by default): add them to `default`
FEATURE_PATCH = {'C15': ('crates/lib/Cargo.toml', 'default = ["games", "services", "game_defs"]', 'default = ["games", "services", "game_defs", "tls", "serde"]')}

import kani_retry_gen as _RG
SETS['C10'] = []
for (_fn, _owner, _h, _tgt) in _RG.RETRY:
    MODULES[_fn] = {'owner': _owner, 'name': _fn[:-3]}
    HARNESSES[_h] = {'module': _fn, 'needs': ['verif_core.rs'], 'target': _tgt, 'timeout': 1500,
        'what': 'wrapper == retry spec over all outcome scripts {no reply, send failure, PacketBad, PacketUnderflow, valid}^3 and r in {0, 1}: attempts = min(index of first non-timeout outcome + 1, r + 1); every attempt gets the caller\'s arguments; result = first non-timeout outcome, else the last attempt\'s receive/send error',
        'bounded': True, 'bound': 'r <= 1, 3 scripted attempts'}
    if _h not in ('retry_wiring_mindustry', 'retry_wiring_quake'):   # these two do not finish under CBMC (>20 min): not counted
        SETS['C10'].append(_h)

HARNESSES['settings_new_rejects_exactly_zero_durations'] = {'module': 'verif_core.rs', 'target': 'protocols::types::TimeoutSettings::{new, get_*, get_*_or_default}',
    'what': 'new() is Err(InvalidInput) iff a duration is zero, for ALL (secs, nanos) of the three optional durations and all retry counts; getters return the stored values (loop-free: complete)'}
HARNESSES['settings_defaults_are_valid'] = {'module': 'verif_core.rs', 'target': 'TimeoutSettings::{default, const_default, *_or_default(None)}', 'what': 'defaults contain no zero duration, retries 0 (complete)'}
HARNESSES['retry_extreme_counts'] = {'module': 'verif_core.rs', 'target': 'utils::retry_on_timeout', 'what': 'retry counts usize::MAX-1 and usize::MAX: no overflow, the closure is called and its success returned (complete for these counts)'}
HARNESSES['retry_small_counts_all_scripts'] = {'module': 'verif_core.rs', 'target': 'utils::retry_on_timeout', 'timeout': 1500, 'tier': 'thorough',
    'what': 'r in 0..=2 over all 625 four-attempt outcome scripts: attempts, first decisive outcome, last timeout error', 'bounded': True, 'bound': 'r <= 2'}
SETS['C18'] = ['settings_new_rejects_exactly_zero_durations', 'settings_defaults_are_valid', 'retry_extreme_counts']
SETS['C10'] = ['retry_small_counts_all_scripts', 'retry_extreme_counts'] + SETS['C10']

# C14: harnesses generated on every run from the real sources (lib/gen_defs.py)
MODULES['verif_master.rs'] = {'owner': 'crates/lib/src/services/valve_master_server/service.rs', 'name': 'verif_master'}
HARNESSES['master_construct_payload'] = {'module': 'verif_master.rs', 'target': 'services::valve_master_server::service::construct_payload', 'timeout': 1200,
    'what': "request bytes without filters == '1', region byte, ip text, ':', port in decimal, NUL, NUL for all 9 regions (Others = 0xFF as ONE byte)", 'bounded': True, 'bound': 'ports 0, 7, 27015, 65535; one seed ip text; filters None'}
HARNESSES['master_filter_bool_kinds'] = {'module': 'verif_master.rs', 'target': 'services::valve_master_server::types::Filter::to_bytes', 'timeout': 1200,
    'what': 'the ten boolean filter kinds encode as \\name\\0|1 with the protocol names (complete over kinds and values)'}
HARNESSES['master_filter_text_kinds'] = {'module': 'verif_master.rs', 'target': 'services::valve_master_server::types::Filter::to_bytes', 'timeout': 1200,
    'what': 'text, tag-list and app-id filter kinds encode as \\name\\value', 'bounded': True, 'bound': 'one sample value per kind (text "de_x", tags [a, bc] and [], ids 440 and u32::MAX)'}
SETS['C16'] = ['master_construct_payload', 'master_filter_bool_kinds', 'master_filter_text_kinds']
MODULES['verif_firstreq.rs'] = {'owner': 'crates/lib/src/socket.rs', 'name': 'verif_firstreq'}
FIRSTREQ = ['firstreq_valve_info', 'firstreq_gamespy_one', 'firstreq_gamespy_two', 'firstreq_gamespy_three', 'firstreq_quake_one', 'firstreq_quake_two', 'firstreq_quake_three', 'firstreq_unreal2', 'firstreq_savage2', 'firstreq_ffow', 'firstreq_mindustry', 'firstreq_minecraft_bedrock', 'firstreq_minecraft_java', 'firstreq_minecraft_legacy_1_6', 'firstreq_minecraft_legacy_1_4', 'firstreq_minecraft_legacy_b1_8']
for _n in FIRSTREQ:
    HARNESSES[_n] = {'module': 'verif_firstreq.rs', 'target': 'first transport write of ' + _n[9:], 'timeout': 1200,
        'what': 'the transport is opened to the caller\'s address and port (all 65536 ports) with the right kind (UDP/TCP), and the first write is byte for byte the protocol\'s request; nothing after the first write is explored (path cut)'}
# firstreq_minecraft_java: Kani reports 'pointer to unallocated memory' (unsupported construct) inside Vec::push on this path before
# the first write is reached, also with a concrete port: tool limit, harness kept in the module but not counted
MODULES['verif_req_valve.rs'] = {'owner': 'crates/lib/src/protocols/valve/types.rs', 'name': 'verif_req_valve'}
MODULES['verif_req_gs3.rs'] = {'owner': 'crates/lib/src/protocols/gamespy/protocols/three/protocol.rs', 'name': 'verif_req_gs3'}
HARNESSES['valve_packet_to_bytes'] = {'module': 'verif_req_valve.rs', 'target': 'protocols::valve::types::Packet::to_bytes',
    'what': 'bytes == header big-endian, kind, payload (the contract U-VALVE assumes)', 'bounded': True, 'bound': 'payload length <= 6 (all header / kind / byte values)'}
HARNESSES['valve_default_payload'] = {'module': 'verif_req_valve.rs', 'target': 'protocols::valve::types::Request::get_default_payload',
    'what': 'Info -> "Source Engine Query\\0", Players / Rules -> FF FF FF FF; request codes 0x54 0x55 0x56 (complete: three variants)'}
HARNESSES['gs3_request_packet_to_bytes'] = {'module': 'verif_req_gs3.rs', 'target': 'protocols::gamespy::three::RequestPacket::to_bytes',
    'what': 'header BE, kind, session id BE, optional challenge BE (whatever its value, negative included), optional payload (complete: loop-free, all field values)'}
HARNESSES['mc_as_string_multibyte'] = {'module': 'verif_core.rs', 'target': 'games::minecraft::types::as_string',
    'what': 'length prefix of a Minecraft string is the UTF-8 byte length (one 2-byte character in the sample)', 'bounded': True, 'bound': 'one sample string'}
MODULES['verif_java.rs'] = {'owner': 'crates/lib/src/games/minecraft/protocol/java.rs', 'name': 'verif_java'}
HARNESSES['java_send_frames_with_varint_length'] = {'module': 'verif_java.rs', 'target': 'games::minecraft::protocol::java::Java::send', 'timeout': 900,
    'what': 'every packet written by the Java client is VarInt(length) followed by the unchanged payload', 'bounded': True, 'bound': 'payload lengths 0, 1, 127, 128, 213, 300'}
for _n in ('firstreq_selftest_wrong_byte', 'firstreq_selftest_wrong_port'):
    HARNESSES[_n] = {'module': 'verif_firstreq.rs', 'target': 'vacuity guard', 'what': 'a first-request harness with a deliberately wrong expectation is refuted (kani::should_panic)'}
SETS['C09'] = [h for h in FIRSTREQ if h != 'firstreq_minecraft_java'] + ['firstreq_selftest_wrong_byte', 'firstreq_selftest_wrong_port', 'master_construct_payload',
               'valve_packet_to_bytes', 'valve_default_payload', 'gs3_request_packet_to_bytes', 'mc_as_string_multibyte']
# java_send_frames_with_varint_length: `[Vec<u8>; 2].concat()` inside Java::send makes Kani report 'pointer to unallocated memory'
# (unsupported construct; the same limit stops firstreq_minecraft_java): harness kept in kani/verif_java.rs, not counted
MODULES['verif_quake.rs'] = {'owner': 'crates/lib/src/protocols/quake/client.rs', 'name': 'verif_quake'}
HARNESSES['quake_remove_wrapping_quotes_small'] = {'module': 'verif_quake.rs', 'target': 'protocols::quake::client::remove_wrapping_quotes', 'timeout': 900, 'replayable': True,
    'what': 'wrapping quotes are removed iff the token has at least two characters and starts and ends with a quote; nothing else is touched', 'bounded': True, 'bound': 'all strings of up to 3 characters over the alphabet {quote, a}'}
SETS['C05'] = ['quake_remove_wrapping_quotes_small', 'firstreq_quake_one', 'firstreq_quake_two', 'firstreq_quake_three']
DYNAMIC = {'C14': 'gen_defs'}
BATCH = {"C14": 16}

# harnesses that stand on no behaviour-changing stub (only the three error-construction stubs, or none): a refutation of one
# of these is replayed natively on the real code with `cargo kani playback`
for _n in SETS['C17'] + ['settings_new_rejects_exactly_zero_durations', 'settings_defaults_are_valid', 'retry_extreme_counts',
                          'master_construct_payload', 'master_filter_bool_kinds', 'master_filter_text_kinds', 'valve_packet_to_bytes',
                          'valve_default_payload', 'gs3_request_packet_to_bytes', 'mc_as_string_multibyte']:
    if _n in HARNESSES:
        HARNESSES[_n]['replayable'] = True
