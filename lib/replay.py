"""Replay files: every VIOLATION gets one.  A replay file names the failed obligation, carries the
verifier's output and, when the replay search reproduced the failure on the real code, the failing
input and what was observed."""
import json
import os
import re
import time
import hashlib

HERE = os.path.dirname(os.path.abspath(__file__))
VERIF = os.path.dirname(HERE)


def make_replay(prop, v, tier):
    rdir = os.path.join(os.environ['VERIF_BUILD_DIR'], 'replays') if os.environ.get('VERIF_BUILD_DIR') else os.path.join(VERIF, 'replays')
    os.makedirs(rdir, exist_ok=True)
    h = hashlib.sha1(v['id'].encode()).hexdigest()[:10]
    path = os.path.join(rdir, f'{prop}-{h}.json')
    reproduced = False
    rec = {'property': prop, 'unit': v.get('unit'), 'engine': v.get('engine'), 'obligation': v['id'],
           'function': v.get('fn'), 'message': v.get('message'), 'clause': v.get('clause'), 'site': v.get('site'),
           'verifier_output': v.get('rendered', ''), 'input': None, 'observed': None}
    try:
        import replay_search
        got = replay_search.search(prop, v, tier)
        if got:
            rec['input'] = got['input']
            rec['observed'] = got['observed']
            rec['replay_test'] = got.get('test')
            reproduced = True
    except ImportError:
        pass
    except Exception as e:  # the search is best effort; the obligation failure stands on its own
        rec['replay_search_error'] = repr(e)
    if v.get('counterexample') and not reproduced:
        rec['input'] = v['counterexample']
        rp_ = v.get('replayed') or {}
        if rp_.get('failed_on_real_code'):
            # Kani's counterexample was executed natively on the real code in the scratch copy and the test failed
            reproduced = True
            rec['observed'] = rp_.get('observed') or 'playback test failed on the real code'
            rec['replay_cmd'] = rp_.get('cmd')
        else:
            rec['observed'] = 'kani concrete playback values (not re-executed: the harness stands on stubs a plain test cannot use)' if not rp_.get('ran') else 'playback test did not fail natively'
    with open(path, 'w') as f:
        json.dump(rec, f, indent=1)
    return path, reproduced


def run_replay_file(path):
    rec = json.load(open(path))
    print(json.dumps({k: rec[k] for k in ('property', 'obligation', 'input', 'observed')}, indent=1))
    if rec.get('replay_test'):
        import replay_search
        return replay_search.rerun(rec)
    print('no executable replay recorded: the violation is the failed obligation above; verifier output follows')
    print(rec.get('verifier_output', ''))
    return 1
