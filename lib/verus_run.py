"""Run Verus on a generated unit file and turn its diagnostics into named obligations."""
import json
import os
import re
import shutil
import subprocess
import tempfile
import time

REFUTED_PATTERNS = [
    'postcondition not satisfied', 'precondition not satisfied', 'assertion failed',
    'possible arithmetic underflow/overflow', 'possible division by zero',
    'invariant not satisfied', 'loop invariant not satisfied', 'decreases not satisfied', 'could not prove termination',
    'precondition not met', 'possible bit shift underflow/overflow', 'unreachable', 'index out of bounds',
    'cannot show invariant holds', 'recommendation not met',
]
UNKNOWN_PATTERNS = ['Resource limit (rlimit) exceeded', 'resource limit', 'rlimit', 'timed out', 'solver unknown']


def classify(msg):
    low = msg.lower()
    for p in UNKNOWN_PATTERNS:
        if p.lower() in low:
            return 'unknown'
    for p in REFUTED_PATTERNS:
        if p.lower() in low:
            return 'refuted'
    return 'unsupported'


def _norm(s):
    return re.sub(r'\s+', ' ', s.strip())


def _inside_proof_block(lines, line_no):
    """is 1-based line `line_no` of the generated file inside a `proof { .. }` block?  (backward scan with brace counting)"""
    depth = 0
    i = line_no - 1
    first = True
    while i >= 0 and line_no - i < 400:
        t = re.sub(r'//.*$', '', lines[i])
        if first:
            first = False   # ignore the braces of the failing line itself
        else:
            for ch in reversed(t):
                if ch == '}':
                    depth += 1
                elif ch == '{':
                    if depth == 0:
                        if re.search(r'\bproof\s*\{', t):
                            return True
                        if re.search(r'\bfn\s+\w+', t) or re.search(r'^\s*(while|for|loop)\b', t):
                            return False
                        # an `if` / `by` / `assert forall` block: keep looking outward
                    else:
                        depth -= 1
        i -= 1
    return False


def region_for(meta, line):
    for r in meta['regions']:
        if r['start'] <= line <= r['end']:
            return r
    return None


def run(gen_path, meta, rlimit=20, multiple_errors=5, seed=None, threads=4, timeout=900, keep_log=False):
    gen_lines = open(gen_path).read().split('\n')
    """returns dict(status, functions_verified, functions_failed, obligations_fine, failures[], unsupported[], wall_s, cmd, raw)"""
    logdir = tempfile.mkdtemp(prefix='verus-log-')
    cmd = ['verus', gen_path, '--triggers-mode', 'silent', '--output-json', '--time', '--error-format=json',
           '--rlimit', str(rlimit), '--multiple-errors', str(multiple_errors), '--num-threads', str(threads),
           '--log', 'air-final', '--log-dir', logdir]
    if seed is not None:
        cmd += ['--smt-option', f'smt.random_seed={int(seed) % 1000}']
    t0 = time.time()
    try:
        p = subprocess.run(cmd, capture_output=True, text=True, timeout=timeout, cwd=os.path.dirname(gen_path))
        out, err, rc = p.stdout, p.stderr, p.returncode
    except subprocess.TimeoutExpired as e:
        shutil.rmtree(logdir, ignore_errors=True)
        return {'status': 'unknown', 'reason': f'verus timed out after {timeout}s', 'failures': [], 'unsupported': [],
                'functions_verified': 0, 'functions_failed': 0, 'obligations_fine': 0, 'wall_s': time.time() - t0,
                'cmd': ' '.join(cmd), 'fn_times': {}}
    wall = time.time() - t0
    fine = 0
    for fn in os.listdir(logdir):
        if fn.endswith('.air'):
            with open(os.path.join(logdir, fn), errors='replace') as f:
                txt = f.read()
            fine += txt.count('(location')
    shutil.rmtree(logdir, ignore_errors=True)
    res = {'status': 'ok', 'failures': [], 'unsupported': [], 'unknown': [], 'wall_s': wall, 'cmd': ' '.join(cmd),
           'obligations_fine': fine, 'functions_verified': 0, 'functions_failed': 0, 'fn_times': {}, 'smt_ms': 0}
    try:
        j = json.loads(out[out.index('{'):]) if '{' in out else {}
    except Exception:
        j = {}
    vr = j.get('verification-results', {})
    res['functions_verified'] = vr.get('verified', 0)
    res['functions_failed'] = vr.get('errors', 0)
    tm = j.get('times-ms', {})
    res['smt_ms'] = tm.get('smt', {}).get('total', 0)
    res['total_ms'] = tm.get('total', 0)
    for mt in tm.get('smt', {}).get('smt-run-module-times', []):
        for fb in mt.get('function-breakdown', []):
            res['fn_times'][fb['function']] = {'ms': fb.get('time', 0), 'rlimit': fb.get('rlimit', 0), 'ok': fb.get('success')}
    diags = []
    for line in err.split('\n'):
        line = line.strip()
        if not line.startswith('{'):
            continue
        try:
            d = json.loads(line)
        except Exception:
            continue
        if d.get('$message_type') == 'diagnostic' or 'message' in d:
            diags.append(d)
    src_lines = open(gen_path).read().split('\n')
    for d in diags:
        if d.get('level') != 'error':
            continue
        msg = d.get('message', '')
        if msg.startswith('aborting due to'):
            continue
        kind = classify(msg)
        spans = d.get('spans', [])
        prim = [s for s in spans if s.get('is_primary')] or spans
        sec = [s for s in spans if not s.get('is_primary')]
        # the function the failure belongs to: region of the code location.  For post/pre-conditions the
        # primary span is the clause; the secondary span ("at the end of the function body", "at this exit",
        # or the call site) is in the function.
        where_line = None
        clause = ''
        site = ''
        if prim:
            clause = _norm(' '.join(t['text'] for t in prim[0].get('text', [])))[:200]
            where_line = prim[0]['line_start']
        reg = None
        cand_lines = []
        if 'postcondition' in msg or 'precondition' in msg:
            # location in code = a span that is not the clause itself
            for s in sec + prim:
                cand_lines.append(s['line_start'])
        else:
            for s in prim + sec:
                cand_lines.append(s['line_start'])
        for ln in cand_lines:
            r = region_for(meta, ln)
            if r is not None and r.get('kind') == 'fn':
                reg = r
                break
        if reg is None:
            for ln in cand_lines:
                r = region_for(meta, ln)
                if r is not None:
                    reg = r
                    break
        for s in sec:
            site = _norm(' '.join(t['text'] for t in s.get('text', [])[:1]))[:160]
            if site:
                break
        if 'precondition' in msg and prim:
            # primary is the call site; the failed clause is in a secondary span labelled "failed precondition"
            site = clause
            for s in sec:
                if 'failed precondition' in (s.get('label') or ''):
                    clause = _norm(' '.join(t['text'] for t in s.get('text', [])))[:200]
        ob = {
            'kind': kind, 'message': msg, 'clause': clause, 'site': site,
            'fn': reg['fn'] if reg else None, 'props': reg.get('props') if reg else None,
            'imported': reg.get('imported') if reg else None,
            'gen_line': where_line, 'rendered': d.get('rendered', '')[:3000],
        }
        if ob['props'] is not None and ('alloc_ok' in clause or 'ALLOC_COUNT_MAX' in clause):
            # allocation-allowance preconditions decide the memory properties only
            ob['props'] = [p for p in ob['props'] if p in ('C13', 'C01')]
        ob['id'] = obligation_id(meta['unit'], ob)
        if kind == 'refuted' and 'assertion failed' in msg and where_line and _inside_proof_block(gen_lines, where_line):
            # an assertion inside an injected `proof { .. }` block is a step of the proof script, not a statement of the
            # property (those are written as plain `assert(..)` statements): see the demotion rule after the loop
            ob['hint'] = True
        if kind == 'refuted':
            res['failures'].append(ob)
        elif kind == 'unknown':
            res['unknown'].append(ob)
        else:
            res['unsupported'].append(ob)
    # demotion rule: a failed proof-script step in a function in which NO contract clause, invariant, precondition or property
    # assertion is refuted says that the proof script needs maintenance (e.g. statements were reordered), not that the
    # property is violated: undecided, never an alarm.  (A failed step that comes with a refuted clause stays a failure.)
    hard = set(ob['fn'] for ob in res['failures'] if not ob.get('hint'))
    for ob in [o for o in res['failures'] if o.get('hint') and o['fn'] not in hard]:
        res['failures'].remove(ob)
        ob['kind'] = 'unknown'
        ob['message'] = 'proof-script step no longer holds (no contract clause refuted in this function): ' + ob['message']
        res['unknown'].append(ob)
    if res['unsupported'] or vr.get('encountered-vir-error') or (not vr and rc != 0):
        res['status'] = 'unsupported'
        if not res['unsupported']:
            res['unsupported'].append({'kind': 'unsupported', 'message': 'verus failed without a parsable diagnostic',
                                       'rendered': err[-3000:], 'id': meta['unit'] + '::<tool>'})
    elif res['failures']:
        res['status'] = 'refuted'
    elif res['unknown']:
        res['status'] = 'unknown'
    elif not vr.get('success', False):
        res['status'] = 'unsupported'
        res['unsupported'].append({'kind': 'unsupported', 'message': 'verus reported no success', 'rendered': err[-3000:],
                                   'id': meta['unit'] + '::<tool>'})
    return res


def obligation_id(unit, ob):
    """stable name of an obligation: unit, function, message class, normalised clause text (no line numbers)"""
    msg = ob['message']
    cls = 'post' if 'postcondition' in msg else 'pre' if 'precondition' in msg else 'overflow' if 'overflow' in msg \
        else 'assert' if 'assertion' in msg else 'invariant' if 'invariant' in msg else 'termination' if ('decreases' in msg or 'termination' in msg) \
        else 'other'
    fn = ob.get('fn') or '?'
    fn = fn.split('crates/lib/src/')[-1]
    key = ob['clause'] if cls in ('post', 'pre', 'assert', 'invariant') else (ob['clause'] or ob['site'])
    key = re.sub(r'\s+', '', key)[:120]
    if cls == 'pre':
        key += '@' + re.sub(r'\s+', '', ob.get('site', ''))[:80]
    return f'{unit}::{fn}::{cls}[{key}]'
