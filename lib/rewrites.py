"""The CLOSED list of mechanical rewrites the extractor may apply to real source text before it
is handed to Verus.  Every application is logged (rule, where, count) into the evidence.  A rule
that is requested but does not apply raises AnchorError (=> undecided), so a silent drift between
the contracts and the code is impossible.

R1  format!(..)/println!(..)  -> call of an external_body fn returning an arbitrary String / ()
R2  (prelude) GDError modelled as {kind}; `.context(x)`/`.into()` keep their real syntax
R3  closure parameter pattern |&x| E  -> |x_ref: &T| { let x = *x_ref; E }   (T given: R3:u8)
R4  expansion of the repository's own single-arm macro_rules! (done in rsparse.expand_macro)
R5  (prelude) byteorder::ByteOrder modelled as an in-file trait with assumed specs
R6  outer attributes and doc comments removed; every extracted item and struct field made `pub` (single-module unit)
R7  f32/f64 read results kept opaque (prelude)
R8:<idiom>  one std iterator idiom replaced by a call to a helper in contracts/std_assumed.rs whose
    body IS the idiom (external_body) and whose spec is assumed; pattern holes are bound to the
    real sub-expressions.  Idioms are listed in IDIOMS below.
R16 `for _ in A .. B`  ->  `for _ in verif_itN: A .. B`   (names the ghost iterator so invariants can refer to it)
R17 `Vec::with_capacity(n)` / `vec![x; n]` / `HashMap::with_capacity(n)` -> wrapper fns (body = the std call) whose
    ghost precondition is the C13 allowance; any other sized allocation left in an extracted fn => undecided
R19 `|e| K.context(e)` -> same closure with `ensures ret.kind == K` (applied everywhere; annotation only)
R21 `Enum::Variant as u8` -> discriminant literal taken from the enum definition in the real source
R18 `E as <int>` -> `#[verifier::truncate] (E as <int>)`  (annotation: casts wrap, exactly as in Rust)
R9  `for PAT in A .. B {` kept; `for _ in ..` kept (Verus supports ranges); no-op marker
R10 `e?` on Option inside fn returning Option untouched; marker only
"""
import re
import rsparse as rp
from rsparse import AnchorError


def _replace_macro_calls(text, name, repl):
    m = rp.mask(text)
    out, last, cnt = [], 0, 0
    for mm in re.finditer(r'\b' + re.escape(name) + r'!\s*\(', m):
        if mm.start() < last:
            continue
        op = mm.end() - 1
        cl = rp.match_bracket(m, op)
        out.append(text[last:mm.start()])
        out.append(repl)
        last = cl + 1
        cnt += 1
    out.append(text[last:])
    return ''.join(out), cnt


def r1(text, arg, what):
    total = 0
    for name, repl in (('format', 'verif_format()'), ('println', 'verif_unit()'), ('eprintln', 'verif_unit()')):
        text, c = _replace_macro_calls(text, name, repl)
        total += c
    if total == 0:
        raise AnchorError(f'{what}: R1 requested but no format!/println! found')
    return text, total


def _split_fields(body):
    """split struct fields at commas that are outside (), [], {} and <> (generic arguments)"""
    m = rp.mask(body)
    parts, d, a, last = [], 0, 0, 0
    for i, c in enumerate(m):
        if c in rp.OPEN:
            d += 1
        elif c in rp.CLOSE:
            d -= 1
        elif c == '<':
            a += 1
        elif c == '>' and a > 0:
            a -= 1
        elif c == ',' and d == 0 and a == 0:
            parts.append(body[last:i])
            last = i + 1
    parts.append(body[last:])
    return [p.strip() for p in parts]


def r6(text, arg, what):
    m = rp.mask(text)
    out, last, cnt = [], 0, 0
    for mm in re.finditer(r'#\s*\[', m):
        if mm.start() < last:
            continue
        op = mm.end() - 1
        cl = rp.match_bracket(m, op)
        inner = text[op + 1:cl].strip()
        if inner.startswith('verifier') or inner.startswith('verus'):
            continue
        out.append(text[last:mm.start()])
        last = cl + 1
        cnt += 1
    out.append(text[last:])
    text = ''.join(out)
    text, c2 = re.subn(r'\bpub\s*\(\s*(?:crate|super)\s*\)', 'pub', text)
    # everything is made public: items (struct/enum/fn) and struct fields (single-module unit; visibility is not a
    # property of interest and Verus forbids private fields in contracts of public fns)
    m2 = rp.mask(text)
    ms = re.match(r'\s*(pub\s+)?(struct|enum)\s+\w+', m2)
    if ms:
        if not ms.group(1):
            text = text[:ms.start(2)] + 'pub ' + text[ms.start(2):]
            m2 = rp.mask(text)
        ob = m2.find('{')
        if ob >= 0 and ms.group(2) == 'struct':
            cb = rp.match_bracket(m2, ob)
            fields = _split_fields(text[ob + 1:cb])
            newf = []
            for f in fields:
                if f.strip() and not f.strip().startswith('pub'):
                    f = 'pub ' + f.strip()
                newf.append(f)
            text = text[:ob + 1] + '\n    ' + ',\n    '.join(x for x in newf if x.strip()) + ',\n' + text[cb:]
    else:
        mf = re.match(r'\s*((?:const\s+)?fn)\s+\w+', m2)
        if mf and arg != 'trait':
            text = text[:mf.start(1)] + 'pub ' + text[mf.start(1):]
    return text, cnt + c2


def r3(text, arg, what):
    """|&x| EXPR  (EXPR ends at the closing bracket of the enclosing call or at a top-level comma)"""
    ty, _, ret = (arg or 'u8').partition(':')
    m = rp.mask(text)
    cnt = 0
    while True:
        mm = re.search(r'\|\s*&\s*(\w+)\s*\|', m)
        if not mm:
            break
        var = mm.group(1)
        # find end of the closure body
        k, d = mm.end(), 0
        while k < len(m):
            c = m[k]
            if c in rp.OPEN:
                d += 1
            elif c in rp.CLOSE:
                if d == 0:
                    break
                d -= 1
            elif c == ',' and d == 0:
                break
            k += 1
        body = text[mm.end():k].strip()
        if ret:
            # the body is a pure expression: it is also its own specification
            new = (f'|{var}_ref: &{ty}| -> (ret: {ret}) ensures ret == ({{ let {var} = *{var}_ref; {body} }}) '
                   f'{{ let {var} = *{var}_ref; {body} }}')
        else:
            new = f'|{var}_ref: &{ty}| {{ let {var} = *{var}_ref; {body} }}'
        text = text[:mm.start()] + new + text[k:]
        m = rp.mask(text)
        cnt += 1
    if cnt == 0:
        raise AnchorError(f'{what}: R3 requested but no |&x| closure found')
    return text, cnt


# R8 idioms:  name -> (regex over the NORMALISED-whitespace source with named holes, replacement)
# Holes match balanced expressions; implemented by hand below for robustness.
def _hole_expr_backward(text, m, end):
    """given index `end` (exclusive) of the receiver expression end, walk back to its start:
    identifiers, field access, indexing/call brackets, `&`, `*`"""
    k = end
    while k > 0:
        c = m[k - 1]
        if c in rp.CLOSE:
            # find matching open
            depth, j = 0, k - 1
            while j >= 0:
                if m[j] in rp.CLOSE:
                    depth += 1
                elif m[j] in rp.OPEN:
                    depth -= 1
                    if depth == 0:
                        break
                j -= 1
            k = j
        elif c.isalnum() or c == '_' or c == '.' or c == '?':
            k -= 1
        elif c == ':' and k >= 2 and m[k - 2] == ':':
            k -= 2
        elif c == '>' and k >= 2 and m[k - 2:k] != '->' and re.search(r'::<[^<>;{}]*$', m[:k - 1]):
            # turbofish  ::<T>
            k = m.rfind('::<', 0, k)
        elif c in ' \n\t':
            # whitespace inside a method chain: allowed if a '.' follows it or precedes it
            j = k
            while j > 0 and m[j - 1] in ' \n\t':
                j -= 1
            nxt = m[k] if k < len(m) else ''
            prv = m[j - 1] if j > 0 else ''
            if nxt == '.' or prv == '.':
                k = j
            else:
                break
        else:
            break
    while k < end and m[k] in ' \n\t':
        k += 1
    return k


def r8(text, arg, what):
    idiom = arg
    if idiom == 'identity_try_into':
        return r8_identity_try_into(text, what)
    if idiom in SIMPLE_IDIOMS:
        return SIMPLE_IDIOMS[idiom](text, what)
    if idiom not in IDIOMS:
        raise AnchorError(f'{what}: unknown idiom {idiom}')
    pat, builder = IDIOMS[idiom]
    m = rp.mask(text)
    # match on the masked text (string contents irrelevant for these idioms) with flexible whitespace
    rx = re.compile(pat, re.S)
    cnt = 0
    while True:
        mm = rx.search(m)
        if not mm:
            break
        recv_end = mm.start()
        recv_start = _hole_expr_backward(text, m, recv_end)
        recv = text[recv_start:recv_end].strip()
        groups = {k: text[mm.start(k):mm.end(k)] for k in mm.groupdict()}
        # argument hole: balanced until the closing paren of `.position(`
        new = builder(recv, groups)
        text = text[:recv_start] + new + text[mm.end():]
        m = rp.mask(text)
        cnt += 1
    if cnt == 0:
        raise AnchorError(f'{what}: R8:{idiom} requested but the idiom does not occur')
    return text, cnt


W = r'\s*'
IDIOMS = {
    # data.iter().position(|&b| b == X)          ->  idiom_position_eq(data, X)
    'position_eq': (
        r'\.' + W + r'iter' + W + r'\(' + W + r'\)' + W + r'\.' + W + r'position' + W + r'\(' + W +
        r'\|' + W + r'&' + W + r'(?P<v>\w+)' + W + r'\|' + W + r'(?P=v)' + W + r'==' + W + r'(?P<x>[^()]*(?:\([^()]*\))?[^()]*?)' + W + r'\)',
        lambda recv, g: f'idiom_position_eq({recv}, {g["x"].strip()})'),
    # data.iter().skip(1).take(N).position(|&b| b == X)  -> idiom_skip_take_position_eq(data, 1, N, X)
    'skip_take_position_eq': (
        r'\.' + W + r'iter' + W + r'\(' + W + r'\)' + W + r'\.' + W + r'skip' + W + r'\(' + W + r'(?P<s>[^()]*)' + W + r'\)' + W +
        r'\.' + W + r'take' + W + r'\(' + W + r'(?P<t>[^()]*)' + W + r'\)' + W + r'\.' + W + r'position' + W + r'\(' + W +
        r'\|' + W + r'&' + W + r'(?P<v>\w+)' + W + r'\|' + W + r'(?P=v)' + W + r'==' + W + r'(?P<x>[^()]*(?:\([^()]*\))?[^()]*?)' + W + r'\)',
        lambda recv, g: f'idiom_skip_take_position_eq({recv}, {g["s"].strip()}, {g["t"].strip()}, {g["x"].strip()})'),
    # data.chunks_exact(2).position(|chunk| chunk == X)   -> idiom_chunks2_position_eq(data, X)
    'chunks2_position_eq': (
        r'\.' + W + r'chunks_exact' + W + r'\(' + W + r'2' + W + r'\)' + W + r'\.' + W + r'position' + W + r'\(' + W +
        r'\|' + W + r'(?P<v>\w+)' + W + r'\|' + W + r'(?P=v)' + W + r'==' + W + r'(?P<x>[^()]*(?:\([^()]*\))?[^()]*?)' + W + r'\)',
        lambda recv, g: f'idiom_chunks2_position_eq({recv}, {g["x"].strip()})'),
}

def r8_identity_try_into(text, what):
    m = rp.mask(text)
    rx = re.compile(r'\.' + W + r'try_into' + W + r'\(' + W + r'\)')
    cnt = 0
    while True:
        mm = rx.search(m)
        if not mm:
            break
        rs = _hole_expr_backward(text, m, mm.start())
        recv = text[rs:mm.start()].strip()
        text = text[:rs] + f'idiom_identity_try_into({recv})' + text[mm.end():]
        m = rp.mask(text)
        cnt += 1
    if cnt == 0:
        raise AnchorError(f'{what}: R8:identity_try_into requested but `.try_into()` does not occur')
    return text, cnt


INT_TYPES = ('u8', 'u16', 'u32', 'u64', 'u128', 'usize', 'i8', 'i16', 'i32', 'i64', 'i128', 'isize')


def r18(text, arg, what):
    """`E as <int type>` -> `#[verifier::truncate] (E as <int type>)`: tells Verus that the cast has Rust's
    wrapping semantics (it never panics) instead of leaving out-of-range results unspecified"""
    m = rp.mask(text)
    cnt = 0
    pos = 0
    while True:
        mm = re.compile(r'\s+as\s+(' + '|'.join(INT_TYPES) + r')\b').search(m, pos)
        if not mm:
            break
        rs = _hole_expr_backward(text, m, mm.start())
        # unary minus / deref / not in front of the operand belong to it
        while rs > 0 and m[rs - 1] in '-*!&':
            rs -= 1
        expr = text[rs:mm.start()]
        if not expr.strip():
            pos = mm.end()
            continue
        new = f'#[verifier::truncate] ({expr} as {mm.group(1)})'
        text = text[:rs] + new + text[mm.end():]
        m = rp.mask(text)
        pos = rs + len(new)
        cnt += 1
    if cnt == 0:
        raise AnchorError(f'{what}: R18 requested but no integer cast found')
    return text, cnt


def r2(text, arg, what):
    """`Err(K)?`  ->  `(return Err(::core::convert::From::from(K)))`   (the language's own desugaring of `?` on an
    Err value; Verus loses the converted error's value through `?`, the explicit form keeps `kind`)"""
    m = rp.mask(text)
    cnt, pos = 0, 0
    while True:
        mm = re.compile(r'\bErr\s*\(').search(m, pos)
        if not mm:
            break
        op = mm.end() - 1
        cl = rp.match_bracket(m, op)
        k = cl + 1
        while k < len(m) and m[k] in ' \t\n':
            k += 1
        if k < len(m) and m[k] == '?':
            inner = text[op + 1:cl]
            new = f'(return Err(::core::convert::From::from({inner})))'
            text = text[:mm.start()] + new + text[k + 1:]
            m = rp.mask(text)
            pos = mm.start() + len(new)
            cnt += 1
        else:
            pos = mm.end()
    if cnt == 0:
        raise AnchorError(f'{what}: R2 requested but no `Err(..)?` found')
    return text, cnt


def r17(text, arg, what):
    """allocation sites -> wrappers with the C13 allowance as precondition (bodies are the std calls).
    arg: spec expression for the number of reply bytes in scope (ghost), default 0"""
    recv, _, elem = (arg or '').partition(';')
    recv = recv if recv else '0int'
    fish = f'::<{elem}>' if elem else ''
    total = 0
    m = rp.mask(text)
    pos = 0
    rx = re.compile(r'\b(Vec|HashMap)\s*::\s*with_capacity\s*\(|\bvec!\s*\[')
    while True:
        mm = rx.search(m, pos)
        if not mm:
            break
        op = mm.end() - 1
        cl = rp.match_bracket(m, op)
        inner = text[op + 1:cl]
        if mm.group(1):
            fn = 'verif_vec_with_capacity' if mm.group(1) == 'Vec' else 'verif_hashmap_with_capacity'
            new = f'{fn}{fish if fn == "verif_vec_with_capacity" else ""}({inner}, Ghost(({recv}) as int))'
        else:
            parts = rp.split_top(inner, ';')
            if len(parts) != 2:
                pos = mm.end()
                continue
            new = f'verif_vec_from_elem({parts[0]}, {parts[1]}, Ghost(({recv}) as int))'
        text = text[:mm.start()] + new + text[cl + 1:]
        m = rp.mask(text)
        pos = mm.start() + len(new)
        total += 1
    if total == 0:
        raise AnchorError(f'{what}: R17 requested but no allocation site found')
    return text, total


ALLOC_PATTERNS = [r'\bwith_capacity\s*\(', r'\bvec!\s*\[[^\]]*;', r'\.reserve(?:_exact)?\s*\(', r'\.repeat\s*\(', r'\.resize\s*\(']


def unrouted_allocations(text, allow=()):
    """allocation sites whose size is an expression, still present after the rewrites (must be none)"""
    m = rp.mask(text)
    out = []
    for p in ALLOC_PATTERNS:
        for mm in re.finditer(p, m):
            if re.search(r'\bfn\s+$', m[max(0, mm.start() - 12):mm.start()]):
                continue    # a function that happens to be called with_capacity
            line = text[text.rfind('\n', 0, mm.start()) + 1:text.find('\n', mm.end())].strip()
            if any(a in line for a in allow):
                continue    # a contracted allocation function of the unit itself (its precondition carries the allowance)
            if 'verif_vec_with_capacity' in line or 'verif_hashmap_with_capacity' in line or 'verif_vec_from_elem' in line:
                continue
            out.append(line)
    return out


def r19(text, arg, what):
    """`|e| K.context(e)`  ->  the same closure annotated with `ensures ret.kind == K` (contract annotation only)"""
    m = rp.mask(text)
    rx = re.compile(r'\|\s*(?P<v>\w+)\s*\|\s*(?P<k>(?:\w+\s*::\s*)*\w+)\s*\.\s*context\s*\(\s*(?P=v)\s*\)')
    cnt, pos = 0, 0
    while True:
        mm = rx.search(m, pos)
        if not mm:
            break
        v, k = mm.group('v'), re.sub(r'\s+', '', mm.group('k'))
        new = f'|{v}| -> (ret: GDError) ensures ret.kind == {k} {{ {k}.context({v}) }}'
        text = text[:mm.start()] + new + text[mm.end():]
        m = rp.mask(text)
        pos = mm.start() + len(new)
        cnt += 1
    return text, cnt


def r21(text, arg, what):
    """`Enum::Variant as u8` -> the discriminant literal read from the enum's definition in the real source
    (arg = EnumName@path).  Verus has no exec enum-to-integer casts in const items."""
    import os
    name, _, rel = arg.partition('@')
    repo = os.environ.get('VERIF_REPO', '/repo')
    src = open(os.path.join(repo, rel)).read()
    m = rp.mask(src)
    (s0, h0, e0) = rp.find_one(src, m, 'enum', name, what=f'enum {name}')
    body = rp.strip_comments(src[h0 + 1:e0 - 1])
    disc = {}
    for part in rp.split_top(body):
        mm = re.match(r'^(?:#\[[^\]]*\]\s*)*(\w+)\s*=\s*([0-9xXa-fA-F_]+)$', part.strip())
        if mm:
            disc[mm.group(1)] = mm.group(2)
    cnt = 0
    def sub(mm):
        nonlocal cnt
        v = mm.group(1)
        if v not in disc:
            raise AnchorError(f'{what}: R21: {name}::{v} has no explicit discriminant')
        cnt += 1
        return f'({disc[v]}{mm.group(2)})'
    text = re.sub(r'\b' + re.escape(name) + r'\s*::\s*(\w+)\s+as\s+(u8|u16|u32|i32)\b', sub, text)
    if cnt == 0:
        raise AnchorError(f'{what}: R21 requested but no `{name}::X as <int>` found')
    return text, cnt


def r4(text, arg, what):
    """inline expansion of one of the repository's own macros inside a function body (arg = name@path)"""
    import os
    name, _, rel = arg.partition('@')
    repo = os.environ.get('VERIF_REPO', '/repo')
    src = open(os.path.join(repo, rel)).read()
    sm = rp.mask(src)
    m = rp.mask(text)
    cnt, pos = 0, 0
    while True:
        mm = re.compile(r'\b' + re.escape(name) + r'!\s*\(').search(m, pos)
        if not mm:
            break
        op = mm.end() - 1
        cl = rp.match_bracket(m, op)
        exp = rp.strip_comments(rp.expand_macro(src, sm, name, text[op + 1:cl])).strip()
        text = text[:mm.start()] + exp + text[cl + 1:]
        m = rp.mask(text)
        pos = mm.start() + len(exp)
        cnt += 1
    if cnt == 0:
        raise AnchorError(f'{what}: R4 requested but no `{name}!(..)` invocation found')
    return text, cnt


def r16(text, arg, what):
    """name the ghost iterator of `for _ in A .. B` loops (Verus annotation syntax `for _ in it: A .. B`)"""
    m = rp.mask(text)
    out, last, cnt = [], 0, 0
    # R16:all names the iterator of every `for <pattern> in` loop, in source order
    rx = r'\bfor\s+(?:_|\w+)\s+in\s+' if arg == 'all' else r'\bfor\s+_\s+in\s+'
    for mm in re.finditer(rx, m):
        out.append(text[last:mm.end()])
        cnt += 1
        out.append(f'verif_it{cnt}: ')
        last = mm.end()
    out.append(text[last:])
    if cnt == 0:
        raise AnchorError(f'{what}: R16 requested but no `for _ in` loop found')
    return ''.join(out), cnt


def r8_simple(name, rx, build):
    def f(text, what):
        m = rp.mask(text)
        cnt = 0
        pos = 0
        while True:
            mm = rx.search(m, pos)
            if not mm:
                break
            new, a, b = build(text, m, mm)
            if new is None:
                pos = mm.end()
                continue
            text = text[:a] + new + text[b:]
            m = rp.mask(text)
            pos = a + len(new)
            cnt += 1
        if cnt == 0:
            raise AnchorError(f'{what}: R8:{name} requested but the idiom does not occur')
        return text, cnt
    return f


def _build_extend(kind):
    def b(text, m, mm):
        op = mm.end() - 1
        cl = rp.match_bracket(m, op)
        arg = text[op + 1:cl].strip()
        isref = arg.startswith('&')
        if (kind == 'ref') != isref:
            return None, 0, 0
        rs = _hole_expr_backward(text, m, mm.start())
        recv = text[rs:mm.start()].strip()
        fn = 'idiom_extend_ref' if isref else 'idiom_extend_vec'
        return f'{fn}(&mut {recv}, {arg})', rs, cl + 1
    return b


def _build_concat2(text, m, mm):
    # `[A, B].concat()` : mm matches `].concat()`; find the matching '['
    cb = mm.start()
    depth, j = 0, cb
    while j >= 0:
        if m[j] == ']':
            depth += 1
        elif m[j] == '[':
            depth -= 1
            if depth == 0:
                break
        j -= 1
    parts = rp.split_top(text[j + 1:cb])
    if len(parts) != 2:
        return None, 0, 0
    return f'idiom_concat2({parts[0]}, {parts[1]})', j, mm.end()


def _build_sort_by_field(text, m, mm):
    rs = _hole_expr_backward(text, m, mm.start())
    recv = text[rs:mm.start()].strip()
    return f'idiom_sort_by_{mm.group("f")}(&mut {recv})', rs, mm.end()


SIMPLE_IDIOMS = {
    'extend_vec': r8_simple('extend_vec', re.compile(r'\.\s*extend\s*\('), _build_extend('vec')),
    'extend_ref': r8_simple('extend_ref', re.compile(r'\.\s*extend\s*\('), _build_extend('ref')),
    'concat2': r8_simple('concat2', re.compile(r'\]\s*\.\s*concat\s*\(\s*\)'), _build_concat2),
    # X.sort_by(|a, b| a.F.cmp(&b.F))  -> idiom_sort_by_F(&mut X)   (helper defined next to the element type)
    'sort_by_field': r8_simple('sort_by_field', re.compile(
        r'\.\s*sort_by\s*\(\s*\|\s*(?P<a>\w+)\s*,\s*(?P<b>\w+)\s*\|\s*(?P=a)\s*\.\s*(?P<f>\w+)\s*\.\s*cmp\s*\(\s*&\s*(?P=b)\s*\.\s*(?P=f)\s*\)\s*\)'),
        _build_sort_by_field),
}


def _noop(text, arg, what):
    return text, 0


RULES = {'ALLOW': _noop, 'R1': r1, 'R3': r3, 'R6': r6, 'R8': r8, 'R16': r16, 'R18': r18, 'R2': r2, 'R17': r17, 'R19': r19, 'R21': r21, 'R4': r4}


def apply(text, uses, what):
    """apply the named rewrites.  A rewrite whose pattern does not occur (any more) is skipped and logged with count 0:
    the code may have been refactored; the verifier then sees the new code as it is (and rejects it as unsupported, or
    checks it).  Only unknown rule names are fatal."""
    log = []
    for u in uses:
        name, _, arg = u.partition(':')
        if name not in RULES:
            raise AnchorError(f'{what}: rewrite {name} is not in the closed list')
        try:
            text, cnt = RULES[name](text, arg, what)
        except AnchorError as e:
            if 'requested but' in str(e):
                log.append((u + ' (pattern absent)', what, 0))
                continue
            raise
        if cnt:
            log.append((u, what, cnt))
    return text, log
