NOTES = ('Contract-based deductive verification. ./check <id> extracts the anchored functions from /repo into Verus units '
         '(units/*.rs.tpl hold only the contracts), runs Verus, runs the Kani harness sets on a scratch copy of the real crate, '
         'and writes evidence/<id>.json. Exit 0 = every obligation discharged; 1 = an obligation was refuted (VIOLATION line + replay file); '
         '2 = undecided (lost anchor, unsupported construct, solver gave up) and is never reported as a violation.')

NOT_APPLICABLE = {
    'C12': 'wall-clock bounds and kernel socket behaviour are outside what a function contract can state: std::net calls are foreign code to both Verus and Kani (DESIGN.md 3/C12)',
    'C19': 'property is about process stdout/exit status and third-party serializer grammars (serde_json, quick_xml, bson, hex, base64) built on trait objects and fmt; neither verifier reaches them (DESIGN.md 3/C19)',
    'C20': 'the id checker is str iterator chains with Unicode predicates, closures mutating captured state, format!, third-party roman/number-word crates; Verus rejects each construct and Kani only runs a few bytes (DESIGN.md 3/C20)',
}

TEXT = {
    'C17': {
        'technique': 'Verus contracts (requires/ensures) on the real Buffer/decoder/VarInt functions against a (bytes,pos) reference view; Kani complete round trip for VarInt',
        'level_text': 'Unbounded deductive proof: every Buffer operation preserves 0<=pos<=len, returns exactly the reference decoding and advances by exactly the width/consumed bytes or fails leaving pos unchanged, for all packets and cursors; discharged by Verus on the function text extracted from /repo on each run.',
        'level_note': 'Trusted: byteorder read_* specs (assumed in Verus, cross-checked by Kani), std from_utf8/from_utf16 transcoding abstract, slice len <= isize::MAX, extraction rewrites R1-R8 (logged), Verus/Z3.',
    },
}
