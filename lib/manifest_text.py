NOTES = ('Contract-based deductive verification. ./check <id> extracts the anchored functions from /repo into Verus units '
         '(units/*.rs.tpl hold only the contracts), runs Verus, runs the Kani harness sets on a scratch copy of the real crate, '
         'and writes evidence/<id>.json. Exit 0 = every obligation discharged; 1 = an obligation was refuted (VIOLATION line + replay file); '
         '2 = undecided (lost anchor, unsupported construct, solver gave up) and is never reported as a violation.')

NOT_APPLICABLE = {
    'C12': 'wall-clock bounds and kernel socket behaviour are outside what a function contract can state: std::net calls are foreign code to both Verus and Kani (DESIGN.md 3/C12)',
    'C19': 'property is about process stdout/exit status and third-party serializer grammars (serde_json, quick_xml, bson, hex, base64) built on trait objects and fmt; neither verifier reaches them (DESIGN.md 3/C19)',
    'C20': 'the id checker is str iterator chains with Unicode predicates, closures mutating captured state, format!, third-party roman/number-word crates; Verus rejects each construct and Kani only runs a few bytes (DESIGN.md 3/C20)',
}

TEXT = {
    'C18': {
        'technique': 'Verus contracts on TimeoutSettings::new / getters / defaults (validity invariant: no zero duration), on both apply_timeout implementations (total, zero reported as InvalidInput) and on the retry counter arithmetic',
        'engine': 'verus',
        'level_text': 'Unbounded proof: new() returns Err(InvalidInput) iff one of the three durations is zero, and Ok values carry the validity invariant; the defaults are valid; applying any settings value to a socket (validated or not) never panics and reports a zero duration as InvalidInput; retry_on_timeout is overflow-free for every retry count including usize::MAX.',
        'level_note': 'std Duration and socket timeout setters are assumed from the std documentation; the clap/serde derive-generated constructors are outside reach (not verified) - they bypass new(), the proof shows such values are rejected at socket set-up instead of panicking.',
    },
    'C10': {
        'technique': 'Verus proof of retry_on_timeout for every retry count (ghost attempt counter, loop invariant); Kani harnesses on each real wrapper with the attempt function stubbed by a scripted recorder',
        'level_text': 'retry_on_timeout: unbounded proof (all r incl. usize::MAX, all closures) that exactly one attempt is made per iteration, at most r+1 in total, only receive/send-class failures are retried, the result is an outcome of an attempt and after r+1 timeouts the last timeout error is returned. Wrappers (valve, gamespy 1/2/3, unreal2, java, bedrock, legacy 1.6): bit-precise check for r in {0,1} over all 125 three-attempt outcome scripts that the number of attempts, the arguments of every attempt and the result match the retry specification.',
        'level_note': 'Wrapper harnesses are bounded (r <= 1) and labelled so; quake and mindustry wrappers are not covered (CBMC does not terminate); legacy 1.4 / beta 1.8 wrappers have the same text as 1.6 but are not run.',
    },
    'C15': {
        'technique': 'Kani proof harnesses on the real impl CommonResponse / CommonPlayer of all 15 response and 11 player types: symbolic scalar fields, pointer identity for strings, as_json and as_original checked',
        'engine': 'kani',
        'level_text': 'Bit-precise proof over all values of every numeric / bool / option-scalar field that each accessor returns exactly the field RESPONSES.md assigns to it (string accessors return the very same memory, so the claim is independent of string content), that as_json() carries exactly those values and that as_original() is the same object.',
        'level_note': 'Player lists have one element (bounded, stated in the evidence); hash tables are empty with fixed keys; epic and minetest types need the tls/serde features, switched on in the scratch copy only; Kani/CBMC trusted.',
    },
    'C14': {
        'technique': 'Kani proof harnesses generated on every run from games/definitions.rs and the game_query_mod! rows: per table entry, the dedicated function and the generic entry point are run against recorders standing in for the protocol-level query functions and transport constructors, and the recorded call is compared with the definition',
        'engine': 'kani',
        'level_text': 'Bit-precise proof, for each of the 96 table entries and all 65537 port choices (given / omitted), that the dedicated module and the generic entry point (without timeout, with the default timeout, with a sample of extra settings) reach the layer below with the destination port = the given port or the DEFINITION default, the definition protocol version / engine / gather settings (or the extra settings where the protocol takes them) and the timeout unchanged. A vacuity guard (same harness with a wrong expected port, must be refuted) runs every time.',
        'level_note': 'Recorders replace the protocol functions, so equal arguments are taken to give equal traffic; only the first call to the layer below is checked (the path is cut there); extra settings are sampled, not enumerated; response post-processing by dedicated modules is not compared; Kani/CBMC trusted.',
    },
    'C03': {
        'technique': 'Verus contracts on the real auto-detection functions (protocol::query, query_legacy, query_legacy_specific and the dedicated games::minecraft::{query, query_legacy, ..}) with the variant clients as abstract callees; VarInt / Minecraft string framing from U-VARINT',
        'engine': 'verus',
        'level_text': 'PARTIAL: only the second sentence of the property is decided. Unbounded proof that the auto-detecting query returns the answer of the first variant that answers in the order Java, Bedrock, legacy 1.6, 1.4, beta 1.8 (Bedrock answers converted), and Err(AutoQuery) exactly when none answers; the dedicated module does the same with its default ports (25565, Bedrock 19132); VarInt and length-prefixed string framing used by the Java client are proved in U-VARINT. The first sentence (every status decodes exactly) is NOT decided by any check: those parsers are serde_json / str::split code outside both verifiers.',
        'level_note': 'Variant clients are uninterpreted functions of the address (deterministic server); response labelling and all status decoding are not covered (evidence.not_covered). A change inside java.rs / bedrock.rs / legacy_*.rs parsing is invisible to this check.',
    },
    'C04': {
        'technique': 'Verus contracts on the real GameSpy 3 functions data_to_map (key/value block of a data packet), receive (framing), make_initial_handshake, send_data_request, get_server_packets_impl (packet table) and on the GameSpy 2 functions request_data_impl (request, reply header) and get_server_vars (variable block)',
        'engine': 'verus',
        'level_text': 'PARTIAL: the transport-level and variable-block parts of GameSpy 3 and GameSpy 2. Unbounded proof that a GameSpy 2 reply with the right header is handed on with the index of its body and that its variable block (key/value strings up to an empty key with an empty value) yields exactly those pairs with the cursor left on the closing NUL; that a GameSpy 3 data packet body consisting of any number of key/value strings closed by an empty key decodes to exactly those pairs (a later duplicate key replacing the earlier) plus the untouched remainder, that reply framing (kind, session id) is checked and stripped, and that the packet table holds each packet under its id. NOT decided by any check: GameSpy 1, the GameSpy 2 tables, the GameSpy 3 player / team sections, the typed response fields and the unused-entries rule (str::split / parse / table code outside both verifiers).',
        'level_note': 'A change in GameSpy 1, in data_as_table / get_players / get_teams, in parse_players_and_teams, in has_password or in the field extraction of the three query functions is invisible to this check; see evidence.not_covered.',
    },
    'C05': {
        'technique': 'Verus contract and loop invariant on the real get_players loop of the Quake client (lines as the left inverse of a line encoder, per-line parsing abstract); Kani bounded harness on remove_wrapping_quotes; first-request harnesses of the three Quake clients',
        'level_text': 'PARTIAL. Unbounded proof that the player section yields one player entry per player line, in order, blank / NUL-only lines excepted, for any number of LF-terminated lines (so the online count equals the number of player lines), errors of a line propagating; bounded Kani check (all strings up to 3 characters over {quote, a}) that wrapping quotes are removed exactly when the token has at least two characters and starts and ends with a quote; the three clients send FF FF FF FF status / getstatus NUL to the given address (Kani, all ports). NOT decided: the server variables (backslash splitting, the named variables, unused entries) and the fields of one player line.',
        'level_note': 'The remove_wrapping_quotes harness is a bounded stand-in, labelled so in the evidence; how one line is split and parsed is assumed to be a function of its text; a change in get_server_values, in parse_player_string or in client_query is invisible to this check.',
    },
    'C08': {
        'technique': 'Verus contract and loop invariants on the real ValveProtocol::receive (split-packet reassembly): ghost sequence of fragments, concatenation function, insertion-position invariant',
        'engine': 'verus',
        'level_text': 'Unbounded proof for Valve split packets: exactly total-1 further datagrams are read whatever fragment numbers they carry (no early exit), the chunks are ordered by fragment number, and the payload handed to decompression/parsing is the concatenation in ascending fragment number of ALL fragments, the first-arrived one inserted at the position its number demands. The result is therefore a function of the set of fragments, not of their arrival order.',
        'level_note': 'Also proved (U-GS3): the GameSpy 3 packet table holds in slot i the data of the packet with id i for every arrival order in which the flagged last packet arrives last. GameSpy 1 and Unreal 2 reassembly are not under contract; sort_by and mem::take are assumed std models; uniqueness of the sorted arrangement is not mechanised; duplicated fragments are not analysed.',
    },
    'C09': {
        'technique': 'Verus send-log contracts on the real Valve, Unreal2, Savage2, FFOW and master-server clients (ghost log of every datagram handed to the transport) + Kani harnesses on the real request builders and on the first transport write of every protocol client',
        'engine': 'verus+kani',
        'level_text': 'Unbounded proof (Verus) for the Valve client that the first datagram is the request of the asked kind, that after every challenge reply exactly one datagram is sent and carries exactly the challenge bytes of that reply (after the default payload for A2S_INFO), and that nothing else is ever sent; likewise one documented request per call for Unreal2, the one-byte Savage2 request, the FFOW request and one seeded request per master-server page. Kani proves on the real code, for all 65536 ports, that each of 15 protocol clients opens the right kind of transport to the caller address and port and that its first write is byte for byte the protocol request, and that Packet::to_bytes / Request::get_default_payload / GameSpy3 RequestPacket::to_bytes produce the framing the Verus contracts assume (any challenge value).',
        'level_note': 'GameSpy 3 (U-GS3): handshake request, then exactly one data request carrying the server challenge whatever its value (0 means none), proved on the real code with str::parse abstract. The Java handshake and later requests of single-request protocols are not covered (listed in the evidence); default-port choice of the generic entry point is the C14 harness set, run in the thorough tier only; transport modelled, Kani/CBMC and Verus/Z3 trusted.',
    },
    'C16': {
        'technique': 'Verus contracts on the real SearchFilters builders (three maps keyed by filter kind), ValveMasterServer::query_specific (one request, reply page decoded as the left inverse of the page encoder) and ValveMasterServer::query (paging loop with a ghost page counter)',
        'engine': 'verus+kani',
        'level_text': 'Unbounded proof: insert / insert_nand / insert_nor put the filter into exactly their own group, replacing an earlier filter of the same kind and leaving the other groups alone; query_specific sends exactly one datagram, the payload for (region, filters, seed address), asks for 1400 bytes and returns exactly the addresses of any well-formed page up to that size, in order; the complete query, for every page sequence ending with the 0.0.0.0:0 terminator, returns all listed addresses in order without the terminator, sends one request per page each seeded with the last address of the previous page, and consumes nothing after the terminator.',
        'level_note': 'The byte text of the request is checked by Kani harnesses on the real construct_payload and Filter::to_bytes (all regions, all boolean filters; sampled ports and text values: bounded) and is an uninterpreted function of its four arguments in the Verus part; the \\nand / \\nor group prefixes are not checked; IpAddr::to_string injectivity, discriminant and the UDP transport are assumed models; a satisfiability witness for the paging hypothesis is proved on every run.',
    },
    'C06': {
        'technique': 'Verus contracts on the real Unreal2StringDecoder and the three parse functions: decoder == reference model for every length byte, parsers are left inverses of spec encoders (loops by quantified invariants)',
        'level_text': 'Unbounded proof: decode_string matches the UE2 string model for all 256 length-byte values (Latin-1 and UCS-2, optional 0x01, cursor never past the data), ServerInfo::parse / Players::parse (bot iff ping == 0, every player once, nothing already collected touched) / MutatorsAndRules::parse (every key/value pair recorded once in order) on well-formed bodies of any length, response-header check, request bytes, greedy receive loops terminate on the finite reply script.',
        'level_note': 'encoding_rs transcoding and colour/control stripping are abstract pure functions; the HashSet/HashMap filing of a pair is cut out verbatim and assumed; Unreal2Protocol::new and the retry wrapper are assumed here (wrapper discharged by Kani).',
    },
    'C07': {
        'technique': 'Verus: each single-game parser proved a left inverse of a spec encoder of the documented reply layout; request bytes and destination port asserted on the ghost send log',
        'level_text': 'Unbounded proof for Savage 2 (whole query function incl. request byte and port), Frontlines: Fuel of War, JC2-MP player list (loop, reported-vs-listed count) and Mindustry server data (length-prefixed strings, big-endian ints, optional trailing mode name): every field of a well-formed reply lands in the correspondingly named response field.',
        'level_note': 'UTF-8 transcoding abstract; socket and Valve client contracts assumed here (the latter proved in U-VALVE); The Ship, Battalion 1944 and Eco mappings not yet under contract (listed as not_covered).',
    },
    'C01': {
        'technique': 'Verus panic-freedom/termination obligations (overflow, index, slice, unwrap preconditions, decreases) on every extracted reply-path function with no precondition on reply bytes',
        'level_text': 'Unbounded proof that each extracted reply-path function returns Ok or Err for every reply: Verus generates and discharges an obligation for every arithmetic operation, cast, index, slice and callee precondition; loops carry decreases (parse loops by remaining bytes, network loops by the finite reply script).',
        'level_note': 'Third-party bodies (bzip2_rs, serde_json, encoding_rs, ureq) and std::net assumed total; std collection/string functions as in contracts/std_*.rs; functions not yet extracted are listed under not_covered in the evidence.',
    },
    'C02': {
        'technique': 'Verus: each A2S parser proved to be a left inverse of a spec encoder written from the Valve specification (opaque stream algebra + per-step lemmas), loops by quantified invariants',
        'level_text': 'Unbounded proof for all server states in the specification domain: SplitPacket::new, Packet::new_from_bufferer, get_server_info (Source: all 32 EDF combinations, The Ship, app id from GameID; obsolete GoldSrc layout), get_server_players and get_server_rules return exactly the encoded state; enum casts for all byte values.',
        'level_note': 'UTF-8 transcoding abstract (three axioms), bzip2/crc32 assumed, the network exchange is an uninterpreted oracle (a2s_exchange); reassembly order is covered by C08; retry wrapper contract discharged by Kani.',
    },
    'C11': {
        'technique': 'Verus contract on get_response with maybe_gather! expanded from the repository macro; ghost send log proves skipped sections are never requested',
        'level_text': 'Proof for all 9 toggle pairs and all callee outcomes: Skip => section absent and no datagram of that kind in the send log; Enforce => section present in every returned response; check_app_id => returned app id is an expected one.',
        'level_note': 'ValveProtocol::new (socket creation) assumed to start with an empty send log; socket send/receive contract assumed (contracts/net_model.rs).',
    },
    'C13': {
        'technique': 'Verus: every sized allocation in extracted reply-path code is routed (rewrite R17) through wrappers whose precondition is the 16 MiB / 64x-received allowance; unrouted allocation sites make the unit undecided',
        'level_text': 'Proof at each allocation site that the requested size is within the fixed allowance or proportional to the bytes received; requests sent <= 1 + datagrams received per exchange (ghost send/receive logs).',
        'level_note': 'Element sizes bounded by 256 bytes (axiom, to be checked by compile-time assertions); TCP read_to_end and std internal growth (Vec::push, HashMap::insert) are amortised by data actually parsed and not modelled; known finding: valve decompressed_size.',
    },
    'C17': {
        'technique': 'Verus contracts (requires/ensures) on the real Buffer/decoder/VarInt functions against a (bytes,pos) reference view; Kani complete round trip for VarInt',
        'level_text': 'Unbounded deductive proof: every Buffer operation preserves 0<=pos<=len, returns exactly the reference decoding and advances by exactly the width/consumed bytes or fails leaving pos unchanged, for all packets and cursors; discharged by Verus on the function text extracted from /repo on each run.',
        'level_note': 'Trusted: byteorder read_* specs (assumed in Verus, cross-checked by Kani), std from_utf8/from_utf16 transcoding abstract, slice len <= isize::MAX, extraction rewrites R1-R8 (logged), Verus/Z3.',
    },
}
