"""Minimal, dependency-free Rust source scanner used by the extractor.

It does NOT rewrite bodies with regexes.  It knows how to
  * blank out comments (keeping offsets/newlines) and skip string / char literals,
  * match brackets,
  * locate items (fn / struct / enum / const / type / macro_rules / impl / trait) by name at a
    given nesting level and return their exact source span,
  * locate loops inside a body by ordinal,
  * expand one `macro_rules!` definition with one arm (the only kind the repository has).

Everything returns spans into the ORIGINAL text so the extracted text is verbatim.
"""
import re


class AnchorError(Exception):
    """A named thing the contracts refer to could not be found in the source (=> undecided)."""


def mask(src, _spans=None):
    """Return a same-length string where comments and the *contents* of string/char literals are
    replaced by spaces (newlines kept).  Structure chars inside literals/comments disappear, so
    bracket matching on the mask is safe; slicing the original with the same offsets gives the
    verbatim text."""
    out = list(src)
    i, n = 0, len(src)

    def blank(a, b):
        for k in range(a, b):
            if out[k] != '\n':
                out[k] = ' '

    while i < n:
        c = src[i]
        if c == '/' and i + 1 < n and src[i + 1] == '/':
            j = src.find('\n', i)
            j = n if j < 0 else j
            blank(i, j)
            if _spans is not None:
                _spans.append((i, j))
            i = j
        elif c == '/' and i + 1 < n and src[i + 1] == '*':
            depth, j = 1, i + 2
            while j < n and depth:
                if src.startswith('/*', j):
                    depth += 1
                    j += 2
                elif src.startswith('*/', j):
                    depth -= 1
                    j += 2
                else:
                    j += 1
            blank(i, j)
            if _spans is not None:
                _spans.append((i, j))
            i = j
        elif c == '"' or (c == 'b' and src.startswith('b"', i)) :
            if c == 'b':
                i += 1
            j = i + 1
            while j < n and src[j] != '"':
                j += 2 if src[j] == '\\' else 1
            blank(i + 1, j)
            i = j + 1
        elif c == 'r' and re.match(r'r#*"', src[i:i + 8]) and (i == 0 or not (src[i - 1].isalnum() or src[i - 1] == '_')):
            m = re.match(r'r(#*)"', src[i:])
            closing = '"' + m.group(1)
            j = src.find(closing, i + len(m.group(0)))
            j = n if j < 0 else j
            blank(i + len(m.group(0)), j)
            i = j + len(closing)
        elif c == "'":
            # char literal or lifetime
            m = re.match(r"'(\\.[^']*|[^'\\])'", src[i:])
            if m:
                blank(i + 1, i + len(m.group(0)) - 1)
                i += len(m.group(0))
            else:
                i += 1
        else:
            i += 1
    return ''.join(out)


OPEN = {'(': ')', '[': ']', '{': '}'}
CLOSE = {v: k for k, v in OPEN.items()}


def match_bracket(m, i):
    """m: masked text, i: index of an opening bracket. Returns index of the matching closer."""
    assert m[i] in OPEN, (m[i], i)
    stack = [m[i]]
    j = i + 1
    n = len(m)
    while j < n:
        c = m[j]
        if c in OPEN:
            stack.append(c)
        elif c in CLOSE:
            if not stack or stack[-1] != CLOSE[c]:
                raise AnchorError(f'unbalanced bracket at offset {j}')
            stack.pop()
            if not stack:
                return j
        j += 1
    raise AnchorError('unterminated bracket')


def norm(s):
    """whitespace-insensitive normal form used to compare headers / snippets"""
    s = re.sub(r'\s+', ' ', s.strip())
    s = re.sub(r'\s*([<>(),:;&\[\]{}=+\-*/|!.?])\s*', r'\1', s)
    return s


def depth_at(m, start, end, pos):
    d = 0
    for k in range(start, pos):
        if m[k] in OPEN:
            d += 1
        elif m[k] in CLOSE:
            d -= 1
    return d


def _item_start(src, m, kw_pos, region_start):
    """Walk back from the keyword over `pub`, `pub(crate)`, `const`, `async`, `unsafe`, attributes and
    doc comments to the start of the item.  Returns index (attributes included)."""
    i = kw_pos
    # walk back over qualifiers on the same logical item
    while True:
        j = i
        # skip whitespace backwards
        while j > region_start and m[j - 1] in ' \t\n':
            j -= 1
        matched = False
        for q in ('pub(crate)', 'pub(super)', 'pub', 'const', 'async', 'unsafe', 'default'):
            if m[max(region_start, j - len(q)):j] == q and (j - len(q) == region_start or not (m[j - len(q) - 1].isalnum() or m[j - len(q) - 1] == '_')):
                i = j - len(q)
                matched = True
                break
        if matched:
            continue
        # attribute  #[...]
        if j > region_start and m[j - 1] == ']':
            # find matching '['
            depth, k = 0, j - 1
            while k >= region_start:
                if m[k] == ']':
                    depth += 1
                elif m[k] == '[':
                    depth -= 1
                    if depth == 0:
                        break
                k -= 1
            if k > region_start and m[k - 1] == '#':
                i = k - 1
                continue
            if k > region_start + 1 and m[k - 2:k] == '#!':
                break
        break
    return i


def find_items(src, m, kind, name, region=(0, None), level=0):
    """Yield (start, header_end, end) for each item `kind name` whose keyword is at bracket nesting
    `level` inside region.  header_end is the index of the body's `{` (or of `;`/`=` for
    body-less items); end is one past the last char of the item."""
    a, b = region
    b = len(src) if b is None else b
    pat = re.compile(r'\b' + re.escape(kind) + r'\s+' + re.escape(name) + r'\b') if name else re.compile(r'\b' + re.escape(kind) + r'\b')
    for mm in pat.finditer(m, a, b):
        if depth_at(m, a, b, mm.start()) != level:
            continue
        start = _item_start(src, m, mm.start(), a)
        # find body start: first '{' or ';' at depth 0 of ( [ < ignoring generics is hard; use ( [ only
        k = mm.end()
        d = 0
        while k < b:
            c = m[k]
            if c in '([':
                d += 1
            elif c in ')]':
                d -= 1
            elif d == 0 and c == '{':
                end = match_bracket(m, k) + 1
                yield (start, k, end)
                break
            elif d == 0 and c == ';':
                yield (start, k, k + 1)
                break
            elif d == 0 and c == '=' and kind in ('const', 'static', 'type') and m[k:k+2] != '=>' and m[k:k+2] != '==':
                # value: up to ';' at depth 0 (brackets of all kinds)
                kk, dd = k, 0
                while kk < b:
                    if m[kk] in OPEN:
                        dd += 1
                    elif m[kk] in CLOSE:
                        dd -= 1
                    elif dd == 0 and m[kk] == ';':
                        break
                    kk += 1
                yield (start, k, kk + 1)
                break
            k += 1


def find_one(src, m, kind, name, region=(0, None), level=0, what=None):
    got = list(find_items(src, m, kind, name, region, level))
    if len(got) != 1:
        raise AnchorError(f'{what or (kind + " " + str(name))}: expected exactly one match, found {len(got)}')
    return got[0]


def find_impl(src, m, header, region=(0, None), level=0):
    """Locate the impl/trait block whose header (text before the `{`) normalises to `header`."""
    want = norm(header)
    kw = want.split(' ', 1)[0].split('<', 1)[0]
    hits = []
    for (s, h, e) in find_items(src, m, kw, None, region, level):
        # header text begins at the keyword, not at attributes
        kwpos = m.find(kw, s, h)
        # find the keyword occurrence that starts the header (skip attrs)
        cand = src[kwpos:h]
        # strip leading visibility in want/cand for comparison
        if norm(cand) == want:
            hits.append((s, h, e))
    if len(hits) != 1:
        raise AnchorError(f'impl header `{header}`: expected exactly one match, found {len(hits)}')
    return hits[0]


LOOP_RE = re.compile(r'\b(while|for|loop)\b')


def find_loops(m, body_start, body_end):
    """Return list of (kw_pos, brace_pos) for loops in m[body_start:body_end] in source order.
    `for` inside `impl ... for` / HRTB never occurs inside fn bodies we extract."""
    res = []
    for mm in LOOP_RE.finditer(m, body_start, body_end):
        k, d = mm.end(), 0
        while k < body_end:
            c = m[k]
            if c in '([':
                d += 1
            elif c in ')]':
                d -= 1
            elif c == '{' and d == 0:
                res.append((mm.start(), k))
                break
            elif c == ';' and d == 0:
                break
            k += 1
    return res


def split_top(s, sep=','):
    """split s at top-level occurrences of sep (brackets and <> ignored only for ([{)"""
    m = mask(s)
    parts, d, last = [], 0, 0
    for i, c in enumerate(m):
        if c in OPEN:
            d += 1
        elif c in CLOSE:
            d -= 1
        elif c == sep and d == 0:
            parts.append(s[last:i])
            last = i + 1
    parts.append(s[last:])
    return [p.strip() for p in parts]


def expand_macro(src, m, name, args_text):
    """Expand `name!(args_text)` using the single-arm macro_rules! definition `name` in src."""
    (s, h, e) = find_one(src, m, 'macro_rules!', name, what=f'macro_rules! {name}')
    body = src[h + 1:e - 1]
    bm = mask(body)
    # arm:  ( pattern ) => { expansion } ;
    p0 = bm.find('(')
    p1 = match_bracket(bm, p0)
    arrow = bm.find('=>', p1)
    x0 = bm.find('{', arrow)
    x1 = match_bracket(bm, x0)
    rest = bm[x1 + 1:].strip().strip(';').strip()
    if rest:
        raise AnchorError(f'macro {name}: more than one arm is not supported by the expander')
    params = []
    for p in split_top(body[p0 + 1:p1]):
        mm = re.match(r'\$(\w+)\s*:\s*(\w+)$', p.strip())
        if not mm:
            raise AnchorError(f'macro {name}: unsupported pattern fragment `{p}`')
        params.append(mm.group(1))
    args = split_top(args_text)
    if len(args) != len(params):
        raise AnchorError(f'macro {name}: {len(params)} parameters, {len(args)} arguments')
    exp = body[x0 + 1:x1]

    def sub(mm):
        nm = mm.group(1)
        if nm in params:
            return args[params.index(nm)]
        return mm.group(0)
    return re.sub(r'\$(\w+)', sub, exp)


def strip_comments(text):
    """drop comments (incl. doc comments) from extracted text; keeps everything else verbatim"""
    spans = []
    mask(text, spans)
    out, last = [], 0
    for (a, b) in spans:
        out.append(text[last:a])
        last = b
    out.append(text[last:])
    res = ''.join(out)
    return '\n'.join(l.rstrip() for l in res.split('\n') if l.strip() != '') + '\n'
