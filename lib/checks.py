"""Which machinery decides which property.  Units are Verus templates in units/, kani entries are
harness-set names defined in lib/kani_sets.py."""

PROPS = {
    'C17': {
        'units': ['U-BUF', 'U-VARINT', 'U-UTIL'],
        'kani': 'C17',
        'level': 'proof',
        'assumptions': ['Rust slices have len <= isize::MAX'],
    },
}
