"""Which machinery decides which property.  Units are Verus templates in units/, kani entries are
harness-set names defined in lib/kani_sets.py."""

PROPS = {
    'C18': {'units': ['U-SET', 'U-UTIL'], 'kani': 'C18', 'level': 'proof',
            'assumptions': ['std set_read_timeout / set_write_timeout return Err for a zero Duration (std documentation)', 'Duration modelled as an opaque value with an is_zero flag'],
            'not_covered': ['the clap- and serde-derived constructors (macro-generated code) build TimeoutSettings without the zero check: such values are rejected with InvalidInput only when the socket is configured (proved: apply_timeout never panics and reports them)',
                            'ExtraRequestSettings builders', 'TcpSocketImpl::new connect_timeout(zero) path']},
    'C10': {'units': ['U-UTIL'], 'kani': 'C10', 'level': 'proof',
            'assumptions': ['the attempt function (_impl) is replaced by a scripted recorder in the wiring harnesses: "same result as with no faults" relies on the attempt being a function of its (unchanged) arguments and the server'],
            'bounded': ['retry wrappers: Kani harnesses for r in {0,1} and 3 scripted attempts over 5 outcome classes (the helper retry_on_timeout itself is proved by Verus for every r, unbounded)'],
            'not_covered': ['quake::client::get_data and mindustry::query_with_retries wrappers: their Kani harnesses do not terminate (>20 min)', 'legacy_v1_4 / legacy_vb1_8 wrappers (same shape as legacy_v1_6)']},
    'C15': {'units': [], 'kani': 'C15', 'level': 'proof',
            'assumptions': ['string contents fixed in the harnesses: accessor identity is checked by pointer, which is independent of content',
                            'HashMap/HashSet fields are empty tables with fixed hash keys (RandomState::new needs a syscall Kani cannot model)'],
            'bounded': ['player lists of exactly one element (the players() adaptor is a map over the list)']},
    'C02': {'units': ['U-VALVE'], 'level': 'proof',
            'assumptions': ['UTF-8 transcoding abstract (utf8 axioms)', 'bzip2/crc32 bodies assumed', 'network exchange outcome uninterpreted (a2s_exchange)']},
    'C06': {'units': ['U-UNREAL'], 'level': 'proof',
            'assumptions': ['encoding_rs decode and the text clean-up (colour/control stripping, NUL trim) are abstract pure functions', 'the statement run filing a key/value pair under mutators/rules is cut out (R24) and its effect assumed'],
            'not_covered': ['HashSet/HashMap bookkeeping inside idiom_mar_record', 'Unreal2Protocol::new']},
    'C11': {'units': ['U-VALVE', 'U-UNREAL'], 'level': 'proof', 'assumptions': ['ValveProtocol::new (socket creation) assumed']},
    'C13': {'units': ['U-VALVE', 'U-VARINT', 'U-BUF', 'U-UNREAL', 'U-GAMES'], 'level': 'proof', 'assumptions': ['element sizes bounded by 256 bytes (axiom_elem_bound_any)']},
    'C07': {'units': ['U-GAMES'], 'level': 'proof', 'assumptions': ['UTF-8 transcoding abstract', 'Valve client contract imported from U-VALVE (a2s_exchange oracle)'],
            'not_covered': ['The Ship / Battalion 1944 conversions', 'Eco serde mapping', 'jc2m::query_with_timeout key/value part']},
    'C01': {'units': ['U-BUF', 'U-UTIL', 'U-VARINT', 'U-VALVE', 'U-GAMES', 'U-UNREAL'], 'level': 'proof', 'assumptions': []},
    'C17': {
        'units': ['U-BUF', 'U-VARINT', 'U-UTIL'],
        'kani': 'C17',
        'level': 'proof',
        'assumptions': ['Rust slices have len <= isize::MAX'],
    },
}
