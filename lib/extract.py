"""Template processor: builds one Verus file per unit from the REAL source in /repo.

A unit template (units/<unit>.rs.tpl) is ordinary Verus text with directives `/*@ ... @*/`.
Each directive names an item of the real source; the processor pulls the item's text verbatim
(comments dropped), applies the named rewrites from the closed list in rewrites.py, splices the
contract sections given in the directive, and emits it in place of the directive.

Directive grammar:

  /*@ <kind> key=value key="value with spaces" ...
  <section> [<arg>] {
      raw text, braces balanced
  }
  ...
  @*/

kinds
  fn       file= name= [impl="<impl/trait header>"] [props=C01,C17] [rename=new_name]
           sections: spec{} loop <n>{} before "<text>"{} after "<text>"{} body_start{} use <R..>
  item     file= kind=struct|enum|const|type|static name=   sections: attrs{} use <R..>
  macro    file= name= args="..." [fn=<fn inside the expansion the sections refer to>]
           sections: as for fn, plus impl_inject{}
  present  file= text="..."      (asserts the normalised text occurs in the real file)
  include  path=<file under /verif/contracts>

Every anchor that cannot be resolved raises AnchorError => the unit is UNDECIDED (exit 2), never a
violation.
"""
import json
import os
import re
import sys

sys.path.insert(0, os.path.dirname(os.path.abspath(__file__)))
import rsparse as rp
from rsparse import AnchorError
import rewrites as rw

REPO = os.environ.get('VERIF_REPO', '/repo')
VERIF = os.path.dirname(os.path.dirname(os.path.abspath(__file__)))

DIRECTIVE_RE = re.compile(r'/\*@(.*?)@\*/', re.S)


def parse_kv(s):
    out = {}
    for mm in re.finditer(r'(\w+)=("([^"]*)"|\S+)', s):
        out[mm.group(1)] = mm.group(3) if mm.group(3) is not None else mm.group(2)
    return out


def parse_directive(text):
    text = text.strip('\n')
    lines = text.split('\n')
    head = lines[0].strip()
    kind, _, rest = head.partition(' ')
    d = {'kind': kind.strip(), 'args': parse_kv(rest), 'sections': [], 'uses': []}
    body = '\n'.join(lines[1:])
    i, n = 0, len(body)
    while i < n:
        mu = re.compile(r'\s*use\s+([^\n]*)(\n|$)').match(body, i)
        if mu:
            d['uses'] += mu.group(1).split()
            i = mu.end()
            continue
        mm = re.compile(r'\s*(\w+)\s*((?:"[^"]*"|`[^`]*`|[^\s{"`]+)?(?:\s*#\d+)?)\s*(\{|$|\n)', re.M).match(body, i)
        if not mm:
            if body[i:].strip() == '':
                break
            raise AnchorError(f'cannot parse directive section near: {body[i:i+60]!r}')
        name, arg = mm.group(1), mm.group(2).strip()
        if name == 'use':
            # rest of the line is a list of rewrite names
            eol = body.find('\n', mm.start(1))
            eol = n if eol < 0 else eol
            d['uses'] += body[mm.end(1):eol].split()
            i = eol + 1
            continue
        if mm.group(3) != '{':
            raise AnchorError(f'section `{name}` lacks a body')
        # balanced braces in raw text (mask to ignore braces in strings/comments)
        ob = mm.end(3) - 1
        mb = rp.mask(body)
        cb = rp.match_bracket(mb, ob)
        d['sections'].append({'name': name, 'arg': arg, 'text': body[ob + 1:cb].strip('\n')})
        i = cb + 1
    return d


class Unit:
    def __init__(self, name):
        self.name = name
        self.out = []          # list of text chunks
        self.line = 1
        self.regions = []      # dicts: start,end (generated lines), fn, file, props, kind
        self.functions = []    # functions under contract
        self.rewrites = []     # (rule, where, count)
        self.assumptions = []
        self.src_cache = {}
        self.props = []
        self.subst_checks = []
        self.helpers = []
        self.pending_helpers = []

    def emit(self, text, region=None):
        if not text.endswith('\n'):
            text += '\n'
        nl = text.count('\n')
        if region is not None:
            region = dict(region)
            region['start'] = self.line
            region['end'] = self.line + nl - 1
            self.regions.append(region)
        self.out.append(text)
        self.line += nl

    def source(self, rel):
        if rel not in self.src_cache:
            p = os.path.join(REPO, rel)
            if not os.path.exists(p):
                raise AnchorError(f'file {rel} not found in the repository')
            s = open(p).read()
            self.src_cache[rel] = (s, rp.mask(s))
        return self.src_cache[rel]


def _occurrence(arg):
    mm = re.match(r'^(?:"([^"]*)"|`([^`]*)`)\s*(?:#(\d+))?$', arg)
    if not mm:
        raise AnchorError(f'bad anchor argument {arg!r}')
    return (mm.group(1) if mm.group(1) is not None else mm.group(2)), int(mm.group(3)) if mm.group(3) else None


def _find_text(hay_norm_src, text, needle, occ, what):
    """find `needle` in text; must be unique unless occ given. returns index in text."""
    idxs = [mm.start() for mm in re.finditer(re.escape(needle), text)]
    if not idxs:
        raise AnchorError(f'{what}: anchor text {needle!r} not found')
    if occ is None:
        if len(idxs) != 1:
            raise AnchorError(f'{what}: anchor text {needle!r} occurs {len(idxs)} times (need #n)')
        return idxs[0]
    if occ > len(idxs):
        raise AnchorError(f'{what}: anchor text {needle!r} occurrence #{occ} not found')
    return idxs[occ - 1]


def apply_sections(unit, text, d, fn_name, what):
    """text: extracted (comment-free) source containing fn `fn_name` (possibly inside an impl
    wrapper, e.g. a macro expansion).  Applies contract sections; returns new text."""
    secs = d['sections']
    m = rp.mask(text)
    # locate the function (any nesting level: try 0 then 1)
    loc = None
    if fn_name:
        for lvl in (0, 1, 2):
            got = list(rp.find_items(text, m, 'fn', fn_name, (0, None), lvl))
            if len(got) == 1:
                loc = got[0]
                break
            if len(got) > 1:
                raise AnchorError(f'{what}: fn {fn_name} found {len(got)} times')
        if loc is None:
            raise AnchorError(f'{what}: fn {fn_name} not found in extracted text')
    edits = []  # (pos, text)  insertions into `text`
    if loc:
        fs, fh, fe = loc
        loops = rp.find_loops(m, fh + 1, fe - 1)
    for s in secs:
        nm = s['name']
        if nm == 'spec':
            edits.append((fh, '\n' + s['text'] + '\n'))
        elif nm == 'loop':
            k = int(s['arg'])
            if k < 1 or k > len(loops):
                raise AnchorError(f'{what}: loop {k} not found (function has {len(loops)} loops)')
            edits.append((loops[k - 1][1], '\n' + s['text'] + '\n'))
        elif nm == 'fn_attrs':
            edits.append((fs, s['text'] + '\n'))
        elif nm == 'body_start':
            edits.append((fh + 1, '\n' + s['text'] + '\n'))
        elif nm == 'tail':
            # R23: bind the function's final expression so that proof code can run after it:
            #   `EXPR`  ->  `let verif_ret = EXPR; <text>; verif_ret`        (semantics preserving)
            k, dd, last_semi = fh + 1, 0, fh
            while k < fe - 1:
                c = m[k]
                if c in rp.OPEN:
                    dd += 1
                elif c in rp.CLOSE:
                    dd -= 1
                elif c == ';' and dd == 0:
                    last_semi = k
                k += 1
            tail_txt = text[last_semi + 1:fe - 1]
            if not tail_txt.strip() or re.match(r'^\s*(if|match|for|while|loop|\{)\b', tail_txt):
                raise AnchorError(f'{what}: cannot isolate the final expression for a `tail` section')
            unit.rewrites.append(('R23', what, 1))
            edits.append((last_semi + 1, ('REPL', fe - 1, '\nlet verif_ret = ' + tail_txt.strip() + ';\n' + s['text'] + '\nverif_ret\n')))
        elif nm == 'body_end':
            edits.append((fe - 1, '\n' + s['text'] + '\n'))
        elif nm in ('before', 'after'):
            needle, occ = _occurrence(s['arg'])
            idx = _find_text(None, text[fh:fe], needle, occ, what) + fh
            if nm == 'before':
                # start of the line containing idx
                ls = text.rfind('\n', 0, idx) + 1
                edits.append((ls, s['text'] + '\n'))
            else:
                # end of the statement: next ';' at the same bracket depth, or end of line if the
                # line ends with '{' or '}'
                k, dd = idx, 0
                while k < fe:
                    c = m[k]
                    if c in rp.OPEN:
                        dd += 1
                    elif c in rp.CLOSE:
                        dd -= 1
                        if dd < 0:
                            break
                    elif c == ';' and dd == 0:
                        break
                    k += 1
                if k >= fe or m[k] != ';':
                    raise AnchorError(f'{what}: no statement end after anchor {needle!r}')
                edits.append((k + 1, '\n' + s['text'] + '\n'))
        elif nm == 'closure':
            # annotate a closure in place: the annotated text must have the same parameter names and
            # the same body as the original; only types and a contract are added.
            needle, occ = _occurrence(s['arg'])
            idx = _find_text(None, text[fh:fe], needle, occ, what) + fh
            ann = s['text'].strip()
            om = re.match(r'^\|([^|]*)\|\s*(.*)$', needle.strip(), re.S)
            am = re.match(r'^\|([^|]*)\|\s*(?:->\s*\([^)]*\))?\s*(?:requires\b.*?)?(?:ensures\b.*?)?\{(.*)\}$', ann, re.S)
            if not om or not am:
                raise AnchorError(f'{what}: closure section malformed')
            onames = [p.strip().lstrip('&').strip() for p in om.group(1).split(',') if p.strip()]
            anames = [p.split(':')[0].strip() for p in am.group(1).split(',') if p.strip()]
            obody = om.group(2).strip()
            if obody.startswith('{') and obody.endswith('}'):
                obody = obody[1:-1]
            if onames != anames or rp.norm(obody) != rp.norm(am.group(2)):
                raise AnchorError(f'{what}: annotated closure differs from the original closure {needle!r}')
            edits.append((idx, ('REPL', idx + len(needle), ann)))
        elif nm == 'cut':
            # R24: a run of whole statements is cut out of the verified text and becomes, verbatim, the body of an
            # external_body helper fn with an ASSUMED spec (given in the section); the statements are replaced by one call.
            #   cut "<text in first statement> ... <text in last statement>" {
            #       helper: fn idiom_x(a: A, mut b: B) -> (r: R) ensures ...;
            #       call: let result = idiom_x(result, char_skip);
            #       ret: result
            #   }
            needle, occ = _occurrence(s['arg'])
            if ' ... ' not in needle:
                raise AnchorError(f'{what}: cut needs "<start> ... <end>"')
            a_txt, b_txt = needle.split(' ... ', 1)
            ia = _find_text(None, text[fh:fe], a_txt, None, what) + fh
            ls = text.rfind('\n', 0, ia) + 1
            if b_txt.strip() == '@ifelse':
                # the whole `if .. { } else if .. { } else { }` statement that starts at the anchor
                k = ia
                while True:
                    ob = m.find('{', k)
                    if ob < 0 or ob >= fe:
                        raise AnchorError(f'{what}: cut @ifelse: no block after {a_txt!r}')
                    cb = rp.match_bracket(m, ob)
                    rest_ = m[cb + 1:fe]
                    me = re.match(r'\s*else\b', rest_)
                    if me:
                        k = cb + 1 + me.end()
                        continue
                    k = cb
                    break
            else:
                ib = _find_text(None, text[fh:fe], b_txt, None, what) + fh
                k, dd = ib, 0
                while k < fe:
                    c = m[k]
                    if c in rp.OPEN:
                        dd += 1
                    elif c in rp.CLOSE:
                        dd -= 1
                        if dd < 0:
                            break
                    elif c == ';' and dd == 0:
                        break
                    k += 1
                if k >= fe or m[k] != ';':
                    raise AnchorError(f'{what}: cut: no statement end after {b_txt!r}')
            block = text[ls:k + 1]
            mh = re.search(r'helper:\s*(fn\s+(idiom_\w+).*?);\s*\n\s*call:\s*(.*?)\n\s*ret:\s*(.*)$', s['text'], re.S)
            if not mh:
                raise AnchorError(f'{what}: cut section needs helper:/call:/ret:')
            sig, hname, call, ret = mh.group(1).strip(), mh.group(2), mh.group(3).strip(), mh.group(4).strip()
            helper = f'#[verifier::external_body]\npub {sig}\n{{\n{block}\n    {ret}\n}}\n'
            mi = re.search(r'^\s*in:\s*(impl[^\n]*)$', s['text'], re.M)
            if mi:
                helper = mi.group(1).strip() + ' {\n' + helper + '}\n'
            unit.helpers.append(helper)
            unit.rewrites.append(('R24', what + ' -> ' + hname, 1))
            edits.append((ls, ('REPL', k + 1, call + '\n')))
        elif nm == 'subst':
            # replace an expression by a call of an `idiom_*` helper.  The helper must be an external_body fn of the
            # unit whose body is, textually, the replaced expression (checked in process() once the unit is complete).
            needle, occ = _occurrence(s['arg'])
            if needle not in text[fh:fe]:
                # the expression is not there (refactored code): nothing to substitute, Verus sees the code as it is
                unit.rewrites.append(('subst', what + ': `' + needle + '` absent, skipped', 0))
                continue
            idx = _find_text(None, text[fh:fe], needle, occ, what) + fh
            call = s['text'].strip()
            mc = re.match(r'^(idiom_\w+)\s*\(', call)
            if not mc:
                raise AnchorError(f'{what}: subst replacement must be a call of an idiom_* helper')
            unit.subst_checks.append((mc.group(1), needle, what, call))
            edits.append((idx, ('REPL', idx + len(needle), call)))
        elif nm == 'impl_inject':
            # first '{' of the extracted text at depth 0 that belongs to an impl
            (is_, ih, ie) = next(rp.find_items(text, m, 'impl', None, (0, None), 0))
            edits.append((ih + 1, '\n' + s['text'] + '\n'))
        elif nm == 'attrs':
            edits.append((0, s['text'] + '\n'))
        else:
            raise AnchorError(f'{what}: unknown section `{nm}`')
    if loc and any(s['name'] == 'spec' for s in secs):
        # name the result `r` (Verus syntax for postconditions): `-> T` becomes `-> (r: T)`
        k = m.find('(', fs)
        pe = rp.match_bracket(m, k)
        arrow = m.find('->', pe, fh)
        if arrow >= 0:
            wh = re.search(r'\bwhere\b', m[arrow:fh])
            te = arrow + wh.start() if wh else fh
            ty = text[arrow + 2:te].strip()
            edits.append((te, None, ''))  # placeholder to keep ordering simple
            edits = [e for e in edits if e[1] is not None or len(e) == 2]
            edits.append((arrow, ('RET', te, ty)))
    final = []
    for e in edits:
        if isinstance(e[1], tuple):
            final.append(e)
        else:
            final.append((e[0], e[1]))
    # apply from the back; RET replaces [arrow, te), REPL replaces [pos, end)
    for e in sorted(final, key=lambda e: (-e[0], 0 if isinstance(e[1], tuple) else 1)):
        if isinstance(e[1], tuple) and e[1][0] == 'RET':
            _, te, ty = e[1]
            text = text[:e[0]] + f'-> (r: {ty}) ' + text[te:]
        elif isinstance(e[1], tuple) and e[1][0] == 'REPL':
            _, te, new = e[1]
            text = text[:e[0]] + new + text[te:]
        else:
            text = text[:e[0]] + e[1] + text[e[0]:]
    return text


def expand_rn(tpl):
    """template sugar: rn!(a; b; c; tail)  ==>  cat(a, cat(b, cat(c, tail)))   (right-nested concatenation with the
    opaque `cat` of contracts/text_model.rs)"""
    while True:
        i = tpl.find('rn!(')
        if i < 0:
            return tpl
        m = rp.mask(tpl)
        op = i + 3
        cl = rp.match_bracket(m, op)
        parts = rp.split_top(tpl[op + 1:cl], ';')
        parts = [p for p in parts if p.strip()]
        expr = parts[-1]
        for p in reversed(parts[:-1]):
            expr = f'cat({p}, {expr})'
        tpl = tpl[:i] + '(' + expr + ')' + tpl[cl + 1:]


def process(unit_name, tpl_path=None, out_dir=None):
    tpl_path = tpl_path or os.path.join(VERIF, 'units', unit_name + '.rs.tpl')
    out_dir = out_dir or os.environ.get('VERIF_BUILD_DIR') or os.path.join(VERIF, 'build')
    os.makedirs(out_dir, exist_ok=True)
    unit = Unit(unit_name)
    tpl = open(tpl_path).read()
    # expand includes first (textual)
    def inc(mm):
        d = parse_directive(mm.group(1))
        if d['kind'] == 'include':
            return open(os.path.join(VERIF, 'contracts', d['args']['path'])).read()
        if d['kind'] == 'import':
            other = open(os.path.join(VERIF, 'units', d['args']['unit'] + '.rs.tpl')).read()
            a = other.index('//@ body-begin')
            b = other.index('//@ body-end')
            mu2 = re.search(r'//@\s*unit\s+(\S+)\s+props=(\S+)', other)
            body = other[a:b]
            # imported fn/macro directives keep the props of their home unit unless they name their own
            def addprops(m2):
                head = m2.group(0)
                if ' imported=' not in head:
                    if head.rstrip().endswith('@*/'):
                        head = head.rstrip()[:-3].rstrip() + ' imported=' + d['args']['unit'] + ' @*/'
                    else:
                        head = head + ' imported=' + d['args']['unit']
                if ' props=' in head:
                    return head
                if head.rstrip().endswith('@*/'):
                    return head.rstrip()[:-3].rstrip() + ' props=' + mu2.group(2) + ' @*/'
                return head + ' props=' + mu2.group(2)
            body = re.sub(r'/\*@ (?:fn|macro|item) [^\n]*', addprops, body)
            return body
        return mm.group(0)
    for _ in range(3):
        tpl = DIRECTIVE_RE.sub(inc, tpl)
    tpl = expand_rn(tpl)
    mu = re.search(r'//@\s*unit\s+(\S+)\s+props=(\S+)', tpl)
    if mu:
        unit.props = mu.group(2).split(',')
    pos = 0
    for mm in DIRECTIVE_RE.finditer(tpl):
        unit.emit_raw = None
        pre = tpl[pos:mm.start()]
        if pre:
            unit.emit(pre if pre.endswith('\n') else pre + '\n')
        pos = mm.end()
        if pos < len(tpl) and tpl[pos] == '\n':
            pos += 1
        d = parse_directive(mm.group(1))
        k, a = d['kind'], d['args']
        props = a.get('props', ','.join(unit.props)).split(',')
        if k == 'present':
            src, m = unit.source(a['file'])
            if rp.norm(a['text']) not in rp.norm(rp.strip_comments(src)):
                raise AnchorError(f'present: text {a["text"]!r} not found in {a["file"]}')
            continue
        if k == 'fn':
            src, m = unit.source(a['file'])
            region = (0, None)
            level = 0
            what = f'{a["file"]}::{a.get("impl", "")}::{a["name"]}'
            if 'impl' in a:
                (s, h, e) = rp.find_impl(src, m, a['impl'])
                region, level = (h + 1, e - 1), 0
            (fs, fh, fe) = rp.find_one(src, m, 'fn', a['name'], region, level, what=what)
            real_line = src.count('\n', 0, fs) + 1
            text = rp.strip_comments(src[fs:fe])
            r6 = 'R6:trait' if (' for ' in a.get('impl', '')) else 'R6'
            text, log = rw.apply(text, [r6, 'R19'] + d['uses'], what)
            unit.rewrites += log
            left = rw.unrouted_allocations(text, [u.split(':', 1)[1] for u in d['uses'] if u.startswith('ALLOW:')])
            if left:
                raise AnchorError(f'{what}: allocation site not routed through the C13 wrappers (use R17): {left[0]}')
            name = a['name']
            if 'rename' in a:
                text = re.sub(r'\bfn\s+' + re.escape(name) + r'\b', 'fn ' + a['rename'], text, count=1)
                name = a['rename']
            unit.helpers = []
            text = apply_sections(unit, text, d, name, what)
            engine = 'verus'
            if 'assume' in a:
                # contract-only: the body is NOT verified by Verus; the contract is discharged by the named Kani
                # harness on the real function (recorded in the evidence).  Signature stays the real one.
                mt = rp.mask(text)
                (fs2, fh2, fe2) = next(rp.find_items(text, mt, 'fn', name, (0, None), 0))
                text = '#[verifier::external_body]\n' + text[:fh2] + '{ unimplemented!() }\n'
                engine = 'assumed-in-verus:' + a['assume']
            unit.functions.append({'fn': what, 'file': a['file'], 'line': real_line, 'props': props,
                                   'engine': engine})
            if unit.helpers:
                unit.pending_helpers += unit.helpers
            unit.emit(text, {'kind': 'fn', 'fn': what, 'file': a['file'], 'real_line': real_line, 'props': props, 'imported': a.get('imported')})
        elif k == 'item':
            src, m = unit.source(a['file'])
            what = f'{a["file"]}::{a["kind"]} {a["name"]}'
            region, level = (0, None), 0
            if 'impl' in a:
                (s, h, e) = rp.find_impl(src, m, a['impl'])
                region = (h + 1, e - 1)
            (s, h, e) = rp.find_one(src, m, a['kind'], a['name'], region, level, what=what)
            text = rp.strip_comments(src[s:e])
            text, log = rw.apply(text, ['R6', 'R19'] + d['uses'], what)
            unit.rewrites += log
            if a['kind'] == 'static':
                # R20: Verus syntax for an executable static with a known value
                ms = re.match(r'^\s*(?:pub\s+)?static\s+(\w+)\s*:\s*([^=]+?)\s*=\s*(.+?);\s*$', text, re.S)
                if not ms:
                    raise AnchorError(f'{what}: unsupported static form')
                text = f'exec static {ms.group(1)}: {ms.group(2)} ensures {ms.group(1)} == {ms.group(3)} {{ {ms.group(3)} }}\n'
                unit.rewrites.append(('R20', what, 1))
            text = apply_sections(unit, text, d, None, what)
            unit.emit(text, {'kind': 'item', 'fn': what, 'file': a['file'], 'props': props})
        elif k == 'macro':
            src, m = unit.source(a['file'])
            what = f'{a["file"]}::{a["name"]}!({a["args"]})'
            # the invocation itself must be present in the real file
            inv_file = a.get('invoked_in', a['file'])
            isrc, _ = unit.source(inv_file)
            if rp.norm(f'{a["name"]}!({a["args"]})') not in rp.norm(rp.strip_comments(isrc)):
                raise AnchorError(f'macro invocation {a["name"]}!({a["args"]}) not found in {inv_file}')
            text = rp.strip_comments(rp.expand_macro(src, m, a['name'], a['args']))
            unit.rewrites.append(('R4', what, 1))
            text, log = rw.apply(text, ['R6', 'R19'] + d['uses'], what)
            unit.rewrites += log
            text = apply_sections(unit, text, d, a.get('fn'), what)
            unit.functions.append({'fn': what + ('::' + a['fn'] if a.get('fn') else ''), 'file': a['file'],
                                   'line': 0, 'props': props, 'engine': 'verus'})
            unit.emit(text, {'kind': 'fn', 'fn': what, 'file': a['file'], 'props': props, 'imported': a.get('imported')})
        elif k == 'include':
            continue
        else:
            raise AnchorError(f'unknown directive kind `{k}`')
    tail = tpl[pos:]
    if unit.pending_helpers:
        # cut-out helper fns go right before the end of the verus! block
        marker = '} // verus!'
        if marker not in tail:
            raise AnchorError('unit template lacks the `} // verus!` end marker')
        tail = tail.replace(marker, '// ---- R24 helpers: statement runs cut out of the verified text (bodies verbatim, specs assumed) ----\n'
                            + '\n'.join(unit.pending_helpers) + '\n' + marker, 1)
    if tail:
        unit.emit(tail)
    full = ''.join(unit.out)
    fm = rp.mask(full)
    for (helper, needle, what, call) in unit.subst_checks:
        got = []
        for lvl in (1, 2, 3):
            got += list(rp.find_items(full, fm, 'fn', helper, (0, None), lvl))
        if len(got) != 1:
            raise AnchorError(f'{what}: subst helper {helper} not found in the unit')
        (hs, hh, he) = got[0]
        body = full[hh + 1:he - 1]
        pre = full[max(0, hs - 200):hh]
        # parameters of the helper and arguments of the call: the helper body must be the replaced expression with each
        # argument expression abstracted to the corresponding parameter
        sig = full[hs:hh]
        po = sig.index('(')
        pc = rp.match_bracket(rp.mask(sig), po)
        params = [p.split(':')[0].strip() for p in rp.split_top(sig[po + 1:pc]) if p.strip()]
        co = call.index('(')
        cc = rp.match_bracket(rp.mask(call), co)
        args = [a for a in rp.split_top(call[co + 1:cc]) if a.strip()]
        suffix = call[cc + 1:].strip()
        expect = needle
        if suffix and expect.strip().endswith(suffix):
            expect = expect.strip()[:-len(suffix)]
        for a_, p_ in zip(args, params):
            expect = expect.replace(a_, p_)
        if 'external_body' not in pre or len(args) != len(params) or rp.norm(body) != rp.norm(expect):
            raise AnchorError(f'{what}: body of {helper} is not the replaced expression `{needle}` (expected `{expect.strip()}`)')
    out_path = os.path.join(out_dir, unit_name + '.rs')
    with open(out_path, 'w') as f:
        f.write(full)
    meta = {'unit': unit_name, 'props': unit.props, 'regions': unit.regions, 'functions': unit.functions,
            'rewrites': [list(r) for r in unit.rewrites], 'generated': out_path}
    with open(os.path.join(out_dir, unit_name + '.map.json'), 'w') as f:
        json.dump(meta, f, indent=1)
    return out_path, meta


if __name__ == '__main__':
    try:
        p, meta = process(sys.argv[1])
        print(p)
    except AnchorError as e:
        print('UNDECIDED anchor:', e)
        sys.exit(2)
