"""Run Kani harnesses on the REAL crate: scratch copy of /repo's working tree, add-only injection of the
harness modules in /verif/kani, one `cargo kani` invocation per property check, scratch removed afterwards."""
import os
import re
import shutil
import subprocess
import sys
import time

HERE = os.path.dirname(os.path.abspath(__file__))
VERIF = os.path.dirname(HERE)
REPO = os.environ.get('VERIF_REPO', '/repo')
sys.path.insert(0, HERE)
import kani_sets as KS

SCRATCH_ROOT = os.environ.get('VERIF_SCRATCH', '/var/tmp')


def prepare_scratch(modules):
    d = os.path.join(SCRATCH_ROOT, f'verif-kani-{os.getpid()}')
    shutil.rmtree(d, ignore_errors=True)
    os.makedirs(d)
    subprocess.run(['rsync', '-a', '--exclude', 'target', '--exclude', '.git', REPO.rstrip('/') + '/', d + '/'], check=True)
    injected = []
    for mod in modules:
        info = KS.MODULES[mod]
        src = os.path.join(info.get('src_dir') or os.path.join(VERIF, 'kani'), mod)
        owner = os.path.join(d, info['owner'])
        if not os.path.exists(owner):
            raise FileNotFoundError(f'owner file {info["owner"]} of harness module {mod} not found')
        dst = os.path.join(os.path.dirname(owner), mod)
        shutil.copy(src, dst)
        with open(owner, 'a') as f:
            f.write(f'\n#[cfg(kani)]\n#[path = "{mod}"]\nmod {info["name"]};\n')
        if info.get('prepend'):
            # crate-level attribute the harness module needs (e.g. a larger macro recursion limit); cfg(kani) only
            txt = open(owner).read()
            open(owner, 'w').write(info['prepend'] + '\n' + txt)
            injected.append(f'{info["owner"]}: first line {info["prepend"]}')
        injected.append(f'{info["owner"]} += mod {info["name"]} ({mod})')
    return d, injected


def parse_output(out, names):
    """returns {harness: {status, checks, time_s, failed_desc}}"""
    res = {}
    cur = {}  # thread -> harness
    last_thread = None
    single = None
    for line in out.split('\n'):
        mm = re.match(r'^(?:Thread (\d+): )?Checking harness ([\w:]+)\.\.\.', line)
        if mm:
            t = mm.group(1) or '0'
            h = mm.group(2).split('::')[-1]
            cur[t] = h
            res.setdefault(h, {'status': 'unknown', 'checks': 0, 'failed': [], 'log': []})
            last_thread = t
            continue
        mt = re.match(r'^Thread (\d+): ?(.*)$', line)
        if mt:
            last_thread = mt.group(1)
            line = mt.group(2)
        h = cur.get(last_thread)
        if h is None:
            continue
        r = res[h]
        r['log'].append(line)
        m2 = re.search(r'\*\* (\d+) of (\d+) failed', line)
        if m2:
            r['checks'] = int(m2.group(2))
            r['nfailed'] = int(m2.group(1))
        if 'VERIFICATION:- SUCCESSFUL' in line:
            r['status'] = 'success'
        elif 'VERIFICATION:- FAILED' in line:
            r['status'] = 'failure'
        m3 = re.search(r'Verification Time: ([\d.]+)s', line)
        if m3:
            r['time_s'] = float(m3.group(1))
        if line.startswith('Failed Checks:'):
            r['failed'].append(line[len('Failed Checks:'):].strip())
        if 'CBMC timed out' in line or 'out of memory' in line.lower() or 'Killed' in line:
            r['status'] = 'timeout'
    return res


def run_harnesses(set_name, tier='quick', prop=None):
    dyn_info = None
    if set_name in getattr(KS, 'DYNAMIC', {}):
        # harness module generated from the real sources of this very tree
        gen = __import__(KS.DYNAMIC[set_name])
        gen_dir = os.path.join(SCRATCH_ROOT, f'verif-gen-{os.getpid()}')
        os.makedirs(gen_dir, exist_ok=True)
        fn = f'verif_gen_{set_name.lower()}.rs'
        try:
            hlist, dyn_info = gen.generate(REPO, os.path.join(gen_dir, fn), tier)
        except Exception as e:
            return {'evidence': {'set': set_name}, 'harness_results': [], 'error': f'harness generation failed: {e!r}', 'assumptions': []}
        KS.MODULES[fn] = {'owner': 'crates/lib/src/lib.rs', 'name': fn[:-3], 'src_dir': gen_dir,
                          'prepend': '#![cfg_attr(kani, recursion_limit = "1024")]'}
        KS.SETS[set_name] = []
        for (h, tgt) in hlist:
            KS.HARNESSES[h] = {'module': fn, 'target': tgt, 'what': 'for every listed table entry and all 65537 port choices: the call reaching the protocol function / transport has the destination, parameters and timeout the definition demands (quick tier: dedicated function and generic entry point without settings; thorough tier: also with timeout settings and a sample of extra settings)', 'timeout': 900}
            KS.SETS[set_name].append(h)
    hs = [h for h in KS.SETS[set_name] if tier == 'thorough' or KS.HARNESSES[h].get('tier', 'quick') == 'quick']
    if os.environ.get('VERIF_KANI_ONLY'):  # development aid: restrict to matching harnesses
        hs = [h for h in hs if re.search(os.environ['VERIF_KANI_ONLY'], h)]
    modules = sorted(set([KS.HARNESSES[h]['module'] for h in hs] + [m for h in hs for m in KS.HARNESSES[h].get('needs', [])]))
    ev = {'set': set_name, 'harnesses': len(hs), 'injected': [], 'build_and_verify_wall_s': 0, 'generated_from_sources': dyn_info}
    out_res = []
    t0 = time.time()
    try:
        d, inj = prepare_scratch(modules)
        fp = getattr(KS, 'FEATURE_PATCH', {}).get(set_name)
        if fp:
            cp = os.path.join(d, fp[0])
            txt = open(cp).read()
            if fp[1] not in txt:
                raise RuntimeError(f'feature patch anchor not found in {fp[0]}')
            open(cp, 'w').write(txt.replace(fp[1], fp[2]))
            inj.append(f'{fp[0]}: default features += tls, serde (scratch copy only)')
    except Exception as e:
        return {'evidence': ev, 'harness_results': [], 'error': f'scratch preparation failed: {e}', 'assumptions': []}
    ev['injected'] = inj
    try:
        env = dict(os.environ, CARGO_NET_OFFLINE='true')
        tmo = max(KS.HARNESSES[h].get('timeout', 600) for h in hs) + 600
        # kani-compiler keeps one goto program per (harness, stub set) in memory: large generated sets go in batches
        bsz = getattr(KS, 'BATCH', {}).get(set_name, len(hs))
        out = ''
        for b0 in range(0, len(hs), bsz):
            batch = hs[b0:b0 + bsz]
            cmd = ['cargo', 'kani', '-p', 'gamedig', '-Z', 'stubbing', '-Z', 'function-contracts', '--output-format', 'terse',
                   '-j', str(min(14 if len(batch) > 16 else 10, max(1, len(batch))))]
            for h in batch:
                cmd += ['--harness', h]
            # own process group, so that a time-out also takes the cbmc children down (they hold gigabytes each)
            pr = subprocess.Popen(cmd, cwd=d, env=env, stdout=subprocess.PIPE, stderr=subprocess.STDOUT, text=True, start_new_session=True)
            try:
                so, _ = pr.communicate(timeout=tmo)
                out += so + '\n'
            except subprocess.TimeoutExpired:
                import signal
                try:
                    os.killpg(pr.pid, signal.SIGKILL)
                except ProcessLookupError:
                    pass
                so, _ = pr.communicate()
                out += (so or '') + '\nverif: cargo kani timed out\n'
        ev['cmd'] = 'CARGO_NET_OFFLINE=true ' + ' '.join(cmd[:9]) + ' --harness <each of %d, in batches of %d>' % (len(hs), bsz)
        parsed = parse_output(out, hs)
        compile_error = ('error: could not compile' in out) or ('error[E' in out and 'Checking harness' not in out)
        for h in hs:
            info = KS.HARNESSES[h]
            r = parsed.get(h)
            item = {'name': h, 'target': info.get('target', h), 'what': info.get('what', ''), 'bounded': info.get('bounded', False),
                    'bound': info.get('bound')}
            if r is None:
                item['status'] = 'not-run'
                item['reason'] = 'compile error in the scratch crate' if compile_error else 'harness not found in kani output'
                item['log_tail'] = out[-2500:]
            else:
                item['status'] = r['status']
                item['checks'] = r['checks']
                item['time_s'] = r.get('time_s')
                if r['status'] == 'failure':
                    item['failed_check'] = '; '.join(r['failed'])[:400]
                    item['failed_desc'] = 'kani: ' + ('; '.join(r['failed'])[:300] or 'verification failed')
                    item['log_tail'] = '\n'.join(r['log'])[-3000:]
                elif r['status'] != 'success':
                    item['reason'] = 'no verdict (timeout/oom)'
                    item['log_tail'] = '\n'.join(r['log'])[-1500:]
            out_res.append(item)
        # Kani gives a counterexample: fetch the concrete values of each refuted harness (printed as a unit test by
        # `--concrete-playback=print`; not re-executed here: most harnesses stand on stubs, which a plain test cannot use)
        for item in out_res:
            if item.get('status') == 'failure' and not os.environ.get('VERIF_NO_PLAYBACK'):
                try:
                    pc = ['cargo', 'kani', '-p', 'gamedig', '-Z', 'stubbing', '-Z', 'function-contracts', '-Z', 'concrete-playback',
                          '--concrete-playback=print', '--harness', item['name']]
                    pp = subprocess.Popen(pc, cwd=d, env=env, stdout=subprocess.PIPE, stderr=subprocess.STDOUT, text=True, start_new_session=True)
                    try:
                        so, _ = pp.communicate(timeout=KS.HARNESSES[item['name']].get('timeout', 600))
                    except subprocess.TimeoutExpired:
                        import signal
                        os.killpg(pp.pid, signal.SIGKILL)
                        so, _ = pp.communicate()
                    mt = re.search(r'Concrete playback unit test for.*?```\n(.*?)```', so or '', re.S)
                    if mt:
                        item['counterexample'] = mt.group(1)[:4000]
                    if mt and KS.HARNESSES[item['name']].get('replayable'):
                        # the harness stands on no behaviour-changing stub: let Kani add the playback test to the scratch copy and
                        # RUN it natively on the real code (cargo kani playback); a failing test is the counterexample reproduced
                        pc2 = pc[:]
                        pc2[pc2.index('--concrete-playback=print')] = '--concrete-playback=inplace'
                        subprocess.run(pc2, cwd=d, env=env, capture_output=True, text=True, timeout=KS.HARNESSES[item['name']].get('timeout', 600), start_new_session=True)
                        pb = subprocess.run(['cargo', 'kani', 'playback', '-p', 'gamedig', '-Z', 'concrete-playback', '--', 'kani_concrete_playback_' + item['name']],
                                            cwd=d, env=env, capture_output=True, text=True, timeout=1500, start_new_session=True)
                        outp = (pb.stdout or '') + (pb.stderr or '')
                        ran = re.search(r'test result: (\w+)\. (\d+) passed; (\d+) failed', outp)
                        pan = re.search(r"panicked at [^\n]*\n[^\n]*", outp)
                        item['replayed'] = {'ran': bool(ran), 'failed_on_real_code': bool(ran and int(ran.group(3)) > 0),
                                            'observed': (pan.group(0) if pan else '')[:600],
                                            'cmd': 'cargo kani playback -p gamedig -Z concrete-playback -- kani_concrete_playback_' + item['name']}
                except Exception as e:
                    item['counterexample_error'] = repr(e)
        if compile_error and not parsed:
            return {'evidence': ev, 'harness_results': out_res, 'error': 'the scratch crate did not compile under kani: ' + out[-1500:],
                    'assumptions': []}
    finally:
        if not os.environ.get('VERIF_KEEP_SCRATCH'):
            shutil.rmtree(d, ignore_errors=True)
        if dyn_info is not None:
            shutil.rmtree(gen_dir, ignore_errors=True)
    ev['build_and_verify_wall_s'] = round(time.time() - t0, 1)
    ev['results'] = [{k: v for k, v in i.items() if k not in ('log_tail',)} for i in out_res]
    assumptions = ['kani stubs: GDErrorKind::context, From<GDErrorKind> for GDError, alloc::fmt::format (error text/backtrace dropped)',
                   'CBMC bit-precise model of Rust semantics; Kani 0.68 / CBMC 6.11']
    return {'evidence': ev, 'harness_results': out_res, 'assumptions': assumptions}


if __name__ == '__main__':
    import json
    r = run_harnesses(sys.argv[1], tier=sys.argv[2] if len(sys.argv) > 2 else 'quick')
    for h in r['harness_results']:
        print(h['name'], h['status'], h.get('time_s'), (h.get('failed_check') or h.get('reason') or '')[:200])
    if r.get('error'):
        print('ERROR', r['error'][:2000])
