"""C14: generate, from the REAL sources on every run, Kani harnesses that compare what the three call paths hand to the layer
below them.  Every protocol-level query function (valve, gamespy 1-3, quake 1-3, unreal2) and every transport constructor
(UdpSocket::new, TcpSocket::new, HttpClient::new) is replaced by a recorder that stores its arguments and returns an error, so
a harness is loop-free (apart from the phf lookup) and complete over all 2^16+1 port choices.

   per-entry harness  : for table entry E (every entry of games/definitions.rs that has a dedicated function)
                          record(dedicated function(ip, port))  ==  record(generic entry point(E, ip, port, None, None))
                          and the recorded destination port == port.unwrap_or(E.default_port)
                          and the recorded protocol parameters == E.protocol's parameters / E.request_settings
   dispatch harness   : for ANY Game value of a family (symbolic default port, engine, settings), ANY port, timeout and extra
                        settings, the generic entry point calls the family's protocol function exactly once with
                        (port or game.default_port, game's parameters, extra settings or game's, the timeout unchanged)

The protocol-level functions are deterministic in their arguments and the transport (C02/C06/.. cover them), so identical
arguments => same requests in the same order and equal results.  What is NOT covered: post-processing a dedicated module
applies to the protocol response (battalion1944 rewrites info from rules; the generic path does not).
"""
import os
import re
import sys

HERE = os.path.dirname(os.path.abspath(__file__))
sys.path.insert(0, HERE)
import rsparse as rp

STUBS = r'''#[kani::stub(crate::protocols::valve::query, rec_valve)]
#[kani::stub(crate::protocols::gamespy::one::query, rec_gs1)]
#[kani::stub(crate::protocols::gamespy::two::query, rec_gs2)]
#[kani::stub(crate::protocols::gamespy::three::query, rec_gs3)]
#[kani::stub(crate::protocols::quake::one::query, rec_q1)]
#[kani::stub(crate::protocols::quake::two::query, rec_q2)]
#[kani::stub(crate::protocols::quake::three::query, rec_q3)]
#[kani::stub(crate::protocols::unreal2::query, rec_unreal)]
#[kani::stub(<crate::socket::UdpSocketImpl as crate::socket::Socket>::new, rec_udp)]
#[kani::stub(<crate::socket::TcpSocketImpl as crate::socket::Socket>::new, rec_tcp)]
#[kani::stub(crate::http::HttpClient::new, rec_http)]
#[kani::stub(crate::errors::kind::GDErrorKind::context, stub_context)]
#[kani::stub(<crate::errors::error::GDError as std::convert::From<crate::errors::kind::GDErrorKind>>::from, stub_from_kind)]
#[kani::stub(alloc::fmt::format, stub_format)]'''

HEADER = r'''// GENERATED on every run by lib/gen_defs.py from games/definitions.rs and games/{valve,gamespy,quake,unreal2}.rs
#![allow(dead_code, unused_imports, unused_variables, unused_mut, static_mut_refs)]
use crate::protocols::types::{ExtraRequestSettings, GatherToggle, Protocol, ProprietaryProtocol, TimeoutSettings};
use crate::protocols::valve::{Engine, GatheringSettings};
use crate::protocols::gamespy::GameSpyVersion;
use crate::protocols::quake::QuakeVersion;
use crate::games::types::Game;
use crate::games::minecraft::{LegacyGroup, Server};
use std::net::{IpAddr, Ipv4Addr, SocketAddr};

pub fn stub_context<E>(kind: crate::GDErrorKind, _source: E) -> crate::GDError { crate::GDError { kind, source: None, backtrace: None } }
pub fn stub_from_kind(kind: crate::GDErrorKind) -> crate::GDError { crate::GDError { kind, source: None, backtrace: None } }
pub fn stub_format(_args: core::fmt::Arguments<'_>) -> String { String::new() }
fn err<T>() -> crate::GDResult<T> { Err(crate::GDError { kind: crate::GDErrorKind::SocketConnect, source: None, backtrace: None }) }
fn ip() -> IpAddr { IpAddr::V4(Ipv4Addr::new(127, 0, 0, 1)) }

// ---- recorders: what reaches the layer below the three call paths ----
#[derive(Clone, Copy, PartialEq)]
enum Call {
    None,
    Valve { port: u16, engine: Engine, gather: GatheringSettings },
    Plain { family: u8, version: u8, port: u16 },
    Unreal { port: u16, gather: crate::protocols::unreal2::GatheringSettings },
    Transport { kind: u8, port: u16 },
}
#[derive(Clone, Copy, PartialEq)]
struct Log { n: usize, calls: [Call; 4], loopback: bool, timeout: Option<TimeoutSettings> }
static mut LOG: Log = Log { n: 0, calls: [Call::None; 4], loopback: true, timeout: None };
fn reset() { unsafe { LOG = Log { n: 0, calls: [Call::None; 4], loopback: true, timeout: None }; } }
fn snapshot() -> Log { unsafe { LOG } }
fn push(c: Call, a: &SocketAddr, t: &Option<TimeoutSettings>) {
    unsafe {
        if LOG.n < 4 { LOG.calls[LOG.n] = c; }
        LOG.n += 1;
        LOG.loopback = LOG.loopback && a.ip() == ip();
        LOG.timeout = *t;
        if LOG.n >= EXP.cut_after { verdict(); }
    }
}
/// What the harness expects of the calls reaching the layer below; checked INSIDE the recorder when the expected number of
/// calls has been made, after which the path is cut (kani::assume(false)): nothing after the last recorded call is explored.
#[derive(Clone, Copy)]
struct Exp { idx: usize, game: Option<&'static Game>, port: Option<u16>, sel: u8, cut_after: usize, selftest_wrong_port: bool }
static mut EXP: Exp = Exp { idx: 0, game: None, port: None, sel: 0, cut_after: 1, selftest_wrong_port: false };
fn verdict() {
    unsafe {
        let l = LOG;
        let e = EXP;
        let g = e.game.unwrap();
        let default_port = if e.selftest_wrong_port { g.default_port.wrapping_add(1) } else { g.default_port };
        // the loopback address given, the given port or the DEFINITION's default, the timeout settings unchanged
        let ok_port = l.loopback && all_ports_are(&l, e.port.unwrap_or(default_port));
        let ok_timeout = l.timeout == (if e.sel == 2 { Some(TimeoutSettings::default()) } else { None });
        // the definition's protocol parameters (or the caller's extra settings where the protocol takes them)
        let ok_params = if e.sel == 3 { matches_extra(&l, g) } else { matches_definition(&l, g) };
        report(e.idx, ok_port, ok_timeout, ok_params);
    }
    kani::assume(false);
}
fn rec_valve(a: &SocketAddr, engine: Engine, gather: Option<GatheringSettings>, t: Option<TimeoutSettings>) -> crate::GDResult<crate::protocols::valve::Response> {
    // protocols::valve::query itself starts with gather_settings.unwrap_or_default()
    push(Call::Valve { port: a.port(), engine, gather: gather.unwrap_or_default() }, a, &t); err()
}
fn rec_gs1(a: &SocketAddr, t: Option<TimeoutSettings>) -> crate::GDResult<crate::protocols::gamespy::one::Response> { push(Call::Plain { family: 1, version: 1, port: a.port() }, a, &t); err() }
fn rec_gs2(a: &SocketAddr, t: Option<TimeoutSettings>) -> crate::GDResult<crate::protocols::gamespy::two::Response> { push(Call::Plain { family: 1, version: 2, port: a.port() }, a, &t); err() }
fn rec_gs3(a: &SocketAddr, t: Option<TimeoutSettings>) -> crate::GDResult<crate::protocols::gamespy::three::Response> { push(Call::Plain { family: 1, version: 3, port: a.port() }, a, &t); err() }
fn rec_q1(a: &SocketAddr, t: Option<TimeoutSettings>) -> crate::GDResult<crate::protocols::quake::Response<crate::protocols::quake::one::Player>> { push(Call::Plain { family: 2, version: 1, port: a.port() }, a, &t); err() }
fn rec_q2(a: &SocketAddr, t: Option<TimeoutSettings>) -> crate::GDResult<crate::protocols::quake::Response<crate::protocols::quake::two::Player>> { push(Call::Plain { family: 2, version: 2, port: a.port() }, a, &t); err() }
fn rec_q3(a: &SocketAddr, t: Option<TimeoutSettings>) -> crate::GDResult<crate::protocols::quake::Response<crate::protocols::quake::two::Player>> { push(Call::Plain { family: 2, version: 3, port: a.port() }, a, &t); err() }
fn rec_unreal(a: &SocketAddr, g: &crate::protocols::unreal2::GatheringSettings, t: Option<TimeoutSettings>) -> crate::GDResult<crate::protocols::unreal2::Response> {
    push(Call::Unreal { port: a.port(), gather: *g }, a, &t); err()
}
fn rec_udp(a: &SocketAddr, t: &Option<TimeoutSettings>) -> crate::GDResult<crate::socket::UdpSocketImpl> { push(Call::Transport { kind: 1, port: a.port() }, a, t); err() }
fn rec_tcp(a: &SocketAddr, t: &Option<TimeoutSettings>) -> crate::GDResult<crate::socket::TcpSocketImpl> { push(Call::Transport { kind: 2, port: a.port() }, a, t); err() }
fn rec_http<S: Into<String>>(a: &SocketAddr, t: &Option<TimeoutSettings>, _s: crate::http::HttpSettings<S>) -> crate::GDResult<crate::http::HttpClient> { push(Call::Transport { kind: 3, port: a.port() }, a, t); err() }

/// The engine value is observable only through (a) the app-id check, when it is switched on, and (b) the three app ids the
/// Valve protocol special-cases (240 CS:S split header, 2400 The Ship, 632360 RoR2) -- see protocols/valve/protocol.rs.
fn special(e: Engine) -> u8 {
    if e == Engine::new(240) { 1 } else if e == Engine::new(2400) { 2 } else if e == Engine::new(632_360) { 3 } else { 0 }
}
fn same_engine_observably(a: Engine, b: Engine, check_app_id: bool) -> bool {
    a == b || (!check_app_id && special(a) == special(b) && matches!((a, b), (Engine::Source(_), Engine::Source(_))))
}
/// two logs are observably the same call sequence
fn same_log(a: &Log, b: &Log) -> bool {
    if a.n != b.n || a.loopback != b.loopback { return false; }
    let mut i = 0;
    while i < 4 {
        let ok = match (a.calls[i], b.calls[i]) {
            (Call::Valve { port: p1, engine: e1, gather: g1 }, Call::Valve { port: p2, engine: e2, gather: g2 }) =>
                p1 == p2 && g1 == g2 && same_engine_observably(e1, e2, g1.check_app_id),
            (x, y) => x == y,
        };
        if !ok { return false; }
        i += 1;
    }
    true
}
fn all_ports_are(l: &Log, want: u16) -> bool {
    let mut i = 0;
    while i < 4 {
        let ok = match l.calls[i] {
            Call::None => true,
            Call::Valve { port, .. } | Call::Plain { port, .. } | Call::Unreal { port, .. } | Call::Transport { port, .. } => port == want,
        };
        if !ok { return false; }
        i += 1;
    }
    true
}
/// the definition's protocol parameters are what reached the protocol function
fn matches_definition(l: &Log, g: &Game) -> bool {
    match (&g.protocol, l.calls[0]) {
        (Protocol::Valve(e), Call::Valve { engine, gather, .. }) => {
            let want: GatheringSettings = GatheringSettings::from(g.request_settings.clone());
            l.n == 1 && gather == want && same_engine_observably(engine, *e, want.check_app_id)
        }
        (Protocol::Gamespy(v), Call::Plain { family, version, .. }) => {
            l.n == 1 && family == 1 && version == (match v { GameSpyVersion::One => 1, GameSpyVersion::Two => 2, GameSpyVersion::Three => 3 })
        }
        (Protocol::Quake(v), Call::Plain { family, version, .. }) => {
            l.n == 1 && family == 2 && version == (match v { QuakeVersion::One => 1, QuakeVersion::Two => 2, QuakeVersion::Three => 3 })
        }
        (Protocol::Unreal2, Call::Unreal { gather, .. }) => l.n == 1 && gather == crate::protocols::unreal2::GatheringSettings::default(),
        (Protocol::PROPRIETARY(ProprietaryProtocol::TheShip), Call::Valve { engine, .. }) => l.n == 1 && engine == Engine::new(2400),
        (Protocol::PROPRIETARY(ProprietaryProtocol::Minecraft(Some(Server::Java))), Call::Transport { kind, .. }) => l.n == 1 && kind == 2,
        (Protocol::PROPRIETARY(ProprietaryProtocol::Minecraft(Some(Server::Legacy(_)))), Call::Transport { kind, .. }) => l.n == 1 && kind == 2,
        (Protocol::PROPRIETARY(ProprietaryProtocol::Minecraft(Some(Server::Bedrock))), Call::Transport { kind, .. }) => l.n == 1 && kind == 1,
        // auto detection tries java (tcp), bedrock (udp), legacy (tcp); only the FIRST attempt is within reach (the path is cut there)
        (Protocol::PROPRIETARY(ProprietaryProtocol::Minecraft(None)), Call::Transport { kind, .. }) => kind == 2,
        (Protocol::PROPRIETARY(ProprietaryProtocol::Eco), Call::Transport { kind, .. }) => l.n == 1 && kind == 3,
        // any other proprietary protocol: the property fixes the destination only, not the kind of transport
        (Protocol::PROPRIETARY(_), Call::Transport { .. }) => l.n == 1,
        _ => false,
    }
}
fn any_toggle() -> GatherToggle { let x: u8 = kani::any(); if x % 3 == 0 { GatherToggle::Skip } else if x % 3 == 1 { GatherToggle::Try } else { GatherToggle::Enforce } }
fn any_engine() -> Engine {
    if kani::any() { Engine::GoldSrc(kani::any()) } else if kani::any() { Engine::Source(None) }
    else { Engine::Source(Some((kani::any(), if kani::any() { Some(kani::any()) } else { None }))) }
}
fn any_extra() -> ExtraRequestSettings {
    ExtraRequestSettings {
        hostname: None, protocol_version: if kani::any() { Some(kani::any()) } else { None },
        gather_players: if kani::any() { Some(any_toggle()) } else { None }, gather_rules: if kani::any() { Some(any_toggle()) } else { None },
        check_app_id: if kani::any() { Some(kani::any()) } else { None },
    }
}
fn any_timeout() -> Option<TimeoutSettings> { if kani::any() { None } else { Some(TimeoutSettings::default()) } }

/// one non-default choice of every extra setting the generic entry point forwards (a SAMPLE of the extra settings, not all)
fn sample_extra() -> ExtraRequestSettings {
    ExtraRequestSettings { hostname: None, protocol_version: None, gather_players: Some(GatherToggle::Skip), gather_rules: Some(GatherToggle::Enforce), check_app_id: Some(false) }
}
/// with extra settings given, the Valve and Unreal2 arms must use THEM instead of the definition's; every other arm ignores them
fn matches_extra(b: &Log, g: &Game) -> bool {
    match (&g.protocol, b.calls[0]) {
        (Protocol::Valve(e), Call::Valve { engine, gather, .. }) => {
            b.n == 1 && engine == *e && gather == GatheringSettings::from(sample_extra())
        }
        (Protocol::Unreal2, Call::Unreal { gather, .. }) => { let want: crate::protocols::unreal2::GatheringSettings = sample_extra().into(); b.n == 1 && gather == want }
        _ => matches_definition(b, g),
    }
}
'''

ENTRY_T = r'''
fn ded_@ID@(port: Option<u16>, sel: u8, wrong: bool) {
    let g: &'static Game = crate::games::GAMES.get("@ID@").unwrap();
    reset();
    unsafe { EXP = Exp { idx: @IDX@, game: Some(g), port, sel: 0, cut_after: @CUT@, selftest_wrong_port: wrong }; }
    // the dedicated module
    let r = @DEDICATED@;
    core::mem::forget(r);
    // every path through a recorder is checked and cut there; arriving here means the layer below was not reached
    assert!(false, "@ID@: the dedicated function returned without reaching the protocol function / transport");
}
fn gen_@ID@(port: Option<u16>, sel: u8, wrong: bool) {
    let g: &'static Game = crate::games::GAMES.get("@ID@").unwrap();
    reset();
    unsafe { EXP = Exp { idx: @IDX@, game: Some(g), port, sel, cut_after: @CUT@, selftest_wrong_port: wrong }; }
    // the generic entry point: 1 without settings, 2 with timeout settings, 3 with a sample of extra settings
    match sel {
        1 => { let r = crate::games::query::query_with_timeout_and_extra_settings(g, &ip(), port, None, None); core::mem::forget(r); }
        2 => { let r = crate::games::query::query_with_timeout_and_extra_settings(g, &ip(), port, Some(TimeoutSettings::default()), None); core::mem::forget(r); }
        _ => { let r = crate::games::query::query_with_timeout_and_extra_settings(g, &ip(), port, None, Some(sample_extra())); core::mem::forget(r); }
    }
    assert!(false, "@ID@: the generic entry point returned without reaching the protocol function / transport");
}
'''
GROUP_T = r'''
#[kani::proof]
#[kani::unwind(40)]
@SHOULD_PANIC@@STUBS@
fn @NAME@() {
    let port: Option<u16> = kani::any();
    let sel: u8 = kani::any();
    kani::assume(sel >= 1 && sel <= @NSEL@);
    let which: usize = kani::any();
    match which {
@ARMS@
        _ => { kani::assume(false); }
    }
}
'''

SELFTEST = ('csgo', 'savage2')
# Every tier: the dedicated function of EVERY table entry (cheap: 24 per harness).
# quick tier   : the generic entry point (the expensive part: one big match) for ONE representative entry per distinct protocol
#                shape of the table (family, version, with / without its own request settings), without settings;
# thorough tier: the generic entry point for EVERY entry, without settings / with timeout settings / with a sample of extra settings.
TIERS = {'quick': (1, 11), 'thorough': (3, 8)}
DED_GROUP = 24

# dedicated entry points of the hand-written modules, keyed by the ProprietaryProtocol variant text of the table row
PROPRIETARY = {
    'Savage2': 'crate::games::savage2::query(&ip(), port)',
    'TheShip': 'crate::games::theship::query(&ip(), port)',
    'FFOW': 'crate::games::ffow::query(&ip(), port)',
    'JC2M': 'crate::games::jc2m::query(&ip(), port)',
    'Mindustry': 'crate::games::mindustry::query(&ip(), port, &None)',
    'Eco': 'crate::games::eco::query(&ip(), port)',
    'Minecraft(None)': 'crate::games::minecraft::query(&ip(), port)',
    'Minecraft(Some(Server::Java))': 'crate::games::minecraft::query_java(&ip(), port, None)',
    'Minecraft(Some(Server::Bedrock))': 'crate::games::minecraft::query_bedrock(&ip(), port)',
    'Minecraft(Some(Server::Legacy(LegacyGroup::V1_6)))': 'crate::games::minecraft::query_legacy_specific(LegacyGroup::V1_6, &ip(), port)',
    'Minecraft(Some(Server::Legacy(LegacyGroup::V1_4)))': 'crate::games::minecraft::query_legacy_specific(LegacyGroup::V1_4, &ip(), port)',
    'Minecraft(Some(Server::Legacy(LegacyGroup::VB1_8)))': 'crate::games::minecraft::query_legacy_specific(LegacyGroup::VB1_8, &ip(), port)',
}


def module_rows(repo, rel):
    """[(module id, pretty name)] of the game_query_mod! rows of one family file"""
    p = os.path.join(repo, rel)
    if not os.path.exists(p):
        return []
    src = rp.strip_comments(open(p).read())
    return re.findall(r'game_query_mod!\s*\(\s*(\w+)\s*,\s*"((?:[^"\\]|\\.)*)"', src)


def table_rows(repo):
    defs = rp.strip_comments(open(os.path.join(repo, 'crates/lib/src/games/definitions.rs')).read())
    rows = []
    for m in re.finditer(r'"(\w+)"\s*=>\s*game!\s*\(\s*"((?:[^"\\]|\\.)*)"\s*,', defs):
        # text of the macro invocation up to its matching parenthesis
        start = defs.index('(', m.start() + len(m.group(1)) + 2)
        depth, i = 0, start
        while True:
            if defs[i] == '(':
                depth += 1
            elif defs[i] == ')':
                depth -= 1
                if depth == 0:
                    break
            i += 1
        rows.append((m.group(1), m.group(2), defs[start:i + 1]))
    return rows


def generate(repo, out_path, tier='quick'):
    NSEL, GROUP = TIERS.get(tier, TIERS['quick'])
    rows = table_rows(repo)
    mods = {}
    for rel in ('valve', 'gamespy', 'quake', 'unreal2'):
        for (mid, name) in module_rows(repo, f'crates/lib/src/games/{rel}.rs'):
            mods[mid] = name
    by_name = {}
    for mid, name in mods.items():
        by_name.setdefault(name, []).append(mid)
    header = HEADER.replace('@STUBS@', STUBS)
    out = [header]
    harnesses = []
    entries = []
    shapes = {}
    not_compared = []
    used = set()
    hand_written = {'battalion1944': 'crate::games::battalion1944::query(&ip(), port)'}
    for (tid, name, text) in rows:
        dedicated = None
        mp = re.search(r'ProprietaryProtocol::(\w+(?:\(.*\))?)\s*\)\s*[,)]', re.sub(r'\s+', '', text).replace(',)', ')'))
        if tid in mods:
            dedicated = f'crate::games::{tid}::query(&ip(), port)'
            used.add(tid)
        elif tid in hand_written and os.path.exists(os.path.join(repo, f'crates/lib/src/games/{tid}.rs')):
            dedicated = hand_written[tid]
        elif 'PROPRIETARY' in text:
            key = mp.group(1) if mp else None
            dedicated = PROPRIETARY.get(key)
            if dedicated is None:
                not_compared.append(f'{tid}: proprietary protocol {key!r} has no dedicated function known to the generator')
                continue
        elif len(by_name.get(name, [])) == 1:
            # module registered under another identifier but the same game name (ut2004 / unrealtournament2004)
            dedicated = f'crate::games::{by_name[name][0]}::query(&ip(), port)'
            used.add(by_name[name][0])
        else:
            not_compared.append(f'{tid}: no dedicated module found')
            continue
        idx = len(entries)
        entries.append((tid, dedicated))
        body = re.sub(r'\s+', '', text)
        args = rp.split_top(body[1:-1])
        shapes[tid] = (re.sub(r'\d[\d_]*', 'N', args[2]) if len(args) > 2 else '?', len(args) > 3)
        out.append(ENTRY_T.replace('@ID@', tid).replace('@IDX@', str(idx)).replace('@CUT@', '1').replace('@DEDICATED@', dedicated))
    # report(): one named assertion per table entry and aspect, so that a refutation names the game
    rep = ['\nfn report(idx: usize, ok_port: bool, ok_timeout: bool, ok_params: bool) {\n    match idx {\n']
    for idx, (tid, _) in enumerate(entries):
        rep.append(f'        {idx} => {{ assert!(ok_port, "{tid}: destination is the address given and the port given or the definition default"); '
                   f'assert!(ok_timeout, "{tid}: timeout settings handed on unchanged"); '
                   f'assert!(ok_params, "{tid}: protocol parameters are those of the definition (or the extra settings given)"); }}\n')
    rep.append('        _ => {}\n    }\n}\n')
    out.append(''.join(rep))
    def group(name, members, kind, wrong, sp):
        arms = ''.join(f'        {k} => {kind}_{tid}(port, sel, {wrong}),\n' for k, (tid, _) in enumerate(members))
        return GROUP_T.replace('@STUBS@', STUBS).replace('@NAME@', name).replace('@ARMS@', arms.rstrip('\n')).replace('@SHOULD_PANIC@', sp).replace('@NSEL@', str(NSEL))
    for g0 in range(0, len(entries), DED_GROUP):
        members = entries[g0:g0 + DED_GROUP]
        name = f'defs_dedicated_{g0 // DED_GROUP:02d}'
        out.append(group(name, members, 'ded', 'false', ''))
        harnesses.append((name, 'dedicated function vs the definition, table entries: ' + ', '.join(t for t, _ in members)))
    if tier == 'thorough':
        generic_entries = entries
    else:
        # one representative per protocol shape: the text of the row's protocol argument with numbers masked, plus whether the row
        # carries its own request settings
        seen, generic_entries = set(), []
        for (tid, dedicated) in entries:
            shape = shapes[tid]
            if shape not in seen:
                seen.add(shape)
                generic_entries.append((tid, dedicated))
    for g0 in range(0, len(generic_entries), GROUP):
        members = generic_entries[g0:g0 + GROUP]
        name = f'defs_generic_{g0 // GROUP:02d}'
        out.append(group(name, members, 'gen', 'false', ''))
        harnesses.append((name, 'generic entry point vs the definition, table entries: ' + ', '.join(t for t, _ in members)))
    # vacuity guard: the same harness shape with a deliberately wrong expected default port MUST be refuted
    for tid in SELFTEST:
        m = [e for e in entries if e[0] == tid]
        if m:
            out.append(group(f'defs_selftest_{tid}', m, 'ded', 'true', '#[kani::should_panic]\n'))
            harnesses.append((f'defs_selftest_{tid}', f'vacuity guard: the harness of "{tid}" with a wrong expected default port is refuted'))
    orphans = [m for m in mods if m not in used]
    with open(out_path, 'w') as f:
        f.write(''.join(out))
    return harnesses, {'table_entries': len(rows), 'entries_with_dedicated_function_checked': len(entries), 'entries_with_generic_entry_point_checked': [t for t, _ in generic_entries], 'generic_call_paths_per_entry': NSEL, 'tier': tier, 'entries_not_compared': not_compared,
                       'modules_without_table_entry': orphans}


if __name__ == '__main__':
    h, info = generate(sys.argv[1] if len(sys.argv) > 1 else '/repo', '/var/tmp/verif_defs.rs', sys.argv[2] if len(sys.argv) > 2 else 'quick')
    print(len(h), info)
