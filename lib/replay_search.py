"""Replay search for Verus refutations in the packet reader and the string / VarInt codecs.

Verus gives no counterexample.  For an obligation refuted in crates/lib/src/buffer.rs, games/minecraft/types.rs or the Unreal2 string
decoder this module runs a fixed battery of boundary packets (kani/verif_replay_battery.rs: unterminated strings, length bytes beyond
the data, odd UTF-16 lengths, over-long VarInts, ..) through the REAL functions in a scratch copy of the working tree (`cargo test`,
add-only injection of a cfg(test) child module into buffer.rs).  A packet on which the real code panics or leaves the cursor past the
end is a failing input reproduced against the real code; the VIOLATION line then carries no `no-failing-input-found` suffix.
The battery is not derived from the failed obligation: it may find nothing although the obligation is genuinely refuted."""
import os
import re
import shutil
import subprocess

HERE = os.path.dirname(os.path.abspath(__file__))
VERIF = os.path.dirname(HERE)
REPO = os.environ.get('VERIF_REPO', '/repo')
SCRATCH_ROOT = os.environ.get('VERIF_SCRATCH', '/var/tmp')
FILES = ('crates/lib/src/buffer.rs', 'crates/lib/src/games/minecraft/types.rs', 'crates/lib/src/protocols/unreal2/protocol.rs')
_cache = {}


def _run_battery():
    if 'res' in _cache:
        return _cache['res']
    d = os.path.join(SCRATCH_ROOT, f'verif-replay-{os.getpid()}')
    shutil.rmtree(d, ignore_errors=True)
    os.makedirs(d)
    try:
        subprocess.run(['rsync', '-a', '--exclude', 'target', '--exclude', '.git', REPO.rstrip('/') + '/', d + '/'], check=True)
        owner = os.path.join(d, 'crates/lib/src/buffer.rs')
        shutil.copy(os.path.join(VERIF, 'kani', 'verif_replay_battery.rs'), os.path.join(os.path.dirname(owner), 'verif_replay_battery.rs'))
        with open(owner, 'a') as f:
            f.write('\n#[cfg(test)]\n#[path = "verif_replay_battery.rs"]\nmod verif_replay_battery;\n')
        env = dict(os.environ, CARGO_NET_OFFLINE='true')
        p = subprocess.run(['cargo', 'test', '--offline', '-p', 'gamedig', '--lib', 'verif_replay_battery', '--', '--nocapture', '--test-threads=1'],
                           cwd=d, env=env, capture_output=True, text=True, timeout=1500)
        out = p.stdout + p.stderr
        fails = re.findall(r'^VERIF-REPLAY-FAIL api=(.*?) packet=(\[.*?\]) observed=(.*)$', out, re.M)
        done = 'VERIF-REPLAY-DONE' in out
        _cache['res'] = (fails, done, out[-1500:])
    except Exception as e:
        _cache['res'] = ([], False, repr(e))
    finally:
        shutil.rmtree(d, ignore_errors=True)
    return _cache['res']


def _run_valve_scenarios():
    """loopback scenarios of replay_tests/ (scripted UDP server on 127.0.0.1, the real valve::query as the client): split header
    with total = 0, and a three-fragment A2S_INFO reply in all six arrival orders"""
    if 'valve' in _cache:
        return _cache['valve']
    d = os.path.join(SCRATCH_ROOT, f'verif-replayv-{os.getpid()}')
    shutil.rmtree(d, ignore_errors=True)
    os.makedirs(d)
    res = []
    try:
        subprocess.run(['rsync', '-a', '--exclude', 'target', '--exclude', '.git', REPO.rstrip('/') + '/', d + '/'], check=True)
        names = ['d4_valve_total_zero', 'd5_valve_fragment_order']
        for n in names:
            shutil.copy(os.path.join(VERIF, 'replay_tests', n + '.rs'), os.path.join(d, 'crates/lib/tests', n + '.rs'))
        env = dict(os.environ, CARGO_NET_OFFLINE='true')
        cmd = ['cargo', 'test', '--offline', '-p', 'gamedig'] + sum([['--test', n] for n in names], []) + ['--no-fail-fast']
        p = subprocess.run(cmd, cwd=d, env=env, capture_output=True, text=True, timeout=1500)
        out = p.stdout + p.stderr
        for mm in re.finditer(r"thread '([\w:]+)'[^\n]* panicked at ([^\n]*)\n([^\n]*)", out):
            res.append((mm.group(1), (mm.group(2) + ' ' + mm.group(3))[:400]))
    except Exception as e:
        res = []
    finally:
        shutil.rmtree(d, ignore_errors=True)
    _cache['valve'] = res
    return res


def search(prop, v, tier):
    if v.get('engine') != 'verus':
        return None
    fn = v.get('fn') or ''
    if fn.startswith('crates/lib/src/protocols/valve/protocol.rs') and any(w in fn for w in ('receive', 'SplitPacket')):
        fails = _run_valve_scenarios()
        if fails:
            return {'input': {'scenario': fails[0][0], 'source': 'replay_tests/d4_valve_total_zero.rs, replay_tests/d5_valve_fragment_order.rs (scripted UDP server on 127.0.0.1)'},
                    'observed': fails[0][1], 'test': 'replay_tests/*.rs run as integration tests in a scratch copy',
                    'all_failing_inputs': [{'scenario': a, 'observed': o} for (a, o) in fails]}
        return None
    if not any(fn.startswith(f) for f in FILES):
        return None
    fails, done, tail = _run_battery()
    if not fails:
        return None
    # prefer a failure of the API the refuted function implements
    name = fn.split('::')[-1]
    impl = fn.split('::')[-2] if fn.count('::') >= 2 else ''
    pick = None
    for (api, packet, observed) in fails:
        key = re.sub(r'[^A-Za-z0-9]', '', api)
        if any(w and w in key for w in re.findall(r'[A-Z][A-Za-z0-9]+Decoder', impl)) or ('varint' in name and 'varint' in api) or ('get_string' in name and 'get_string' in api):
            pick = (api, packet, observed)
            break
    if pick is None:
        pick = fails[0]
    return {'input': {'api': pick[0], 'packet': pick[1]}, 'observed': pick[2],
            'test': 'kani/verif_replay_battery.rs (cargo test -p gamedig --lib verif_replay_battery in a scratch copy)',
            'all_failing_inputs': [{'api': a, 'packet': p, 'observed': o} for (a, p, o) in fails[:20]]}


def rerun(rec):
    fails, done, tail = _run_battery()
    for (api, packet, observed) in fails:
        print(f'still fails on the current tree: api={api} packet={packet} observed={observed}')
    if not fails:
        print('the boundary battery passes on the current tree' if done else 'the battery could not be run: ' + tail)
    return 1 if fails else 0
