// ===== ASSUMED specifications of std functions used by the extracted bodies =====
// Each item here is an assumption (trusted base); the mechanical scan lists them in every evidence
// file.  Byte-level idioms are cross-checked on the real std code by Kani (kani/std_idioms.rs).

// ---- text model: UTF-8 / UTF-16 transcoding is abstract ----
pub uninterp spec fn utf8_valid(b: Seq<u8>) -> bool;
pub uninterp spec fn utf8_text(b: Seq<u8>) -> Seq<char>;
pub uninterp spec fn utf16_valid(u: Seq<u16>) -> bool;
pub uninterp spec fn utf16_text(u: Seq<u16>) -> Seq<char>;

#[verifier::external_type_specification]
#[verifier::external_body]
pub struct ExUtf8Error(std::str::Utf8Error);
#[verifier::external_type_specification]
#[verifier::external_body]
pub struct ExFromUtf8Error(std::string::FromUtf8Error);
#[verifier::external_type_specification]
#[verifier::external_body]
pub struct ExFromUtf16Error(std::string::FromUtf16Error);

pub assume_specification [std::str::from_utf8] (b: &[u8]) -> (r: std::result::Result<&str, std::str::Utf8Error>)
    ensures
        r is Ok <==> utf8_valid(b@),
        r is Ok ==> r->Ok_0@ == utf8_text(b@);

pub assume_specification [String::from_utf8] (v: Vec<u8>) -> (r: std::result::Result<String, std::string::FromUtf8Error>)
    ensures
        r is Ok <==> utf8_valid(v@),
        r is Ok ==> r->Ok_0@ == utf8_text(v@);

pub assume_specification [String::from_utf16] (v: &[u16]) -> (r: std::result::Result<String, std::string::FromUtf16Error>)
    ensures
        r is Ok <==> utf16_valid(v@),
        r is Ok ==> r->Ok_0@ == utf16_text(v@);

pub assume_specification<T, const N: usize> [<[T; N] as std::convert::AsRef<[T]>>::as_ref] (a: &[T; N]) -> (r: &[T])
    ensures r@ == a@;

// ---- first index of a byte in a sequence (spec vocabulary for the idioms) ----
pub open spec fn first_index_of(s: Seq<u8>, x: u8) -> int
    decreases s.len()
{
    if s.len() == 0 { 0 } else if s[0] == x { 0 } else { 1 + first_index_of(s.subrange(1, s.len() as int), x) }
}
pub proof fn lemma_first_index_of(s: Seq<u8>, x: u8)
    ensures
        0 <= first_index_of(s, x) <= s.len(),
        first_index_of(s, x) < s.len() ==> s[first_index_of(s, x)] == x,
        forall|j: int| 0 <= j < first_index_of(s, x) ==> s[j] != x,
    decreases s.len()
{
    if s.len() != 0 && s[0] != x {
        let t = s.subrange(1, s.len() as int);
        lemma_first_index_of(t, x);
        assert forall|j: int| 0 <= j < first_index_of(s, x) implies s[j] != x by {
            if j > 0 { assert(t[j - 1] == s[j]); }
        }
    }
}

// R8:position_eq      body is the real idiom `s.iter().position(|&b| b == x)`
#[verifier::external_body]
pub fn idiom_position_eq(s: &[u8], x: u8) -> (r: Option<usize>)
    ensures
        match r {
            Some(i) => i < s@.len() && i == first_index_of(s@, x),
            None => first_index_of(s@, x) == s@.len(),
        }
{ s.iter().position(|&b| b == x) }

// R8:skip_take_position_eq   body is the real idiom `s.iter().skip(k).take(n).position(|&b| b == x)`
pub open spec fn skip_take(s: Seq<u8>, k: int, n: int) -> Seq<u8> {
    if k >= s.len() { Seq::empty() } else if k + n >= s.len() { s.subrange(k, s.len() as int) } else { s.subrange(k, k + n) }
}
#[verifier::external_body]
pub fn idiom_skip_take_position_eq(s: &[u8], k: usize, n: usize, x: u8) -> (r: Option<usize>)
    ensures
        match r {
            Some(i) => i < skip_take(s@, k as int, n as int).len() && i == first_index_of(skip_take(s@, k as int, n as int), x),
            None => first_index_of(skip_take(s@, k as int, n as int), x) == skip_take(s@, k as int, n as int).len(),
        }
{ s.iter().skip(k).take(n).position(|&b| b == x) }

// R8:chunks2_position_eq   body is the real idiom `s.chunks_exact(2).position(|c| c == d)`
pub open spec fn pair_at(s: Seq<u8>, j: int, d: Seq<u8>) -> bool { s[2 * j] == d[0] && s[2 * j + 1] == d[1] }
pub open spec fn first_pair_index(s: Seq<u8>, d: Seq<u8>) -> int
    decreases s.len()
{
    if s.len() < 2 { 0 } else if pair_at(s, 0, d) { 0 } else { 1 + first_pair_index(s.subrange(2, s.len() as int), d) }
}
pub proof fn lemma_first_pair_index(s: Seq<u8>, d: Seq<u8>)
    ensures
        0 <= first_pair_index(s, d) <= s.len() / 2,
        first_pair_index(s, d) < s.len() / 2 ==> pair_at(s, first_pair_index(s, d), d),
        forall|j: int| 0 <= j < first_pair_index(s, d) ==> !#[trigger] pair_at(s, j, d),
    decreases s.len()
{
    if s.len() >= 2 && !pair_at(s, 0, d) {
        let t = s.subrange(2, s.len() as int);
        lemma_first_pair_index(t, d);
        assert forall|j: int| 0 <= j < first_pair_index(s, d) implies !#[trigger] pair_at(s, j, d) by {
            if j > 0 { assert(t[2 * (j - 1)] == s[2 * j]); assert(t[2 * (j - 1) + 1] == s[2 * j + 1]); assert(!pair_at(t, j - 1, d)); }
        }
        let k = first_pair_index(t, d);
        if k < t.len() / 2 { assert(pair_at(t, k, d)); assert(t[2 * k] == s[2 * (k + 1)]); assert(t[2 * k + 1] == s[2 * (k + 1) + 1]); }
    }
}
#[verifier::external_body]
pub fn idiom_chunks2_position_eq(s: &[u8], d: &[u8]) -> (r: Option<usize>)
    requires d@.len() == 2
    ensures
        match r {
            Some(i) => i < s@.len() / 2 && i == first_pair_index(s@, d@),
            None => first_pair_index(s@, d@) == s@.len() / 2,
        }
{ s.chunks_exact(2).position(|c| c == d) }

// R8:identity_try_into   `data.try_into()` where source and target are both `&[u8]`: the blanket
// `impl<T, U: Into<T>> TryFrom<U> for T` (Error = Infallible) is the identity conversion.  The types are
// pinned here, so if the real code ever converts to another type this helper stops type-checking.
#[verifier::external_body]
pub fn idiom_identity_try_into<'a>(s: &'a [u8]) -> (r: Result<&'a [u8], std::convert::Infallible>)
    ensures r is Ok, r->Ok_0@ == s@
{ s.try_into() }

// layout of the float primitives (not in vstd::layout::layout_of_primitives)
pub axiom fn axiom_size_of_floats()
    ensures vstd::layout::size_of::<f32>() == 4, vstd::layout::size_of::<f64>() == 8;

#[verifier::allow(undeclared_external_trait)]
pub assume_specification<T, U, F: FnOnce(T) -> U> [Option::<T>::map_or] (o: Option<T>, default: U, f: F) -> (r: U)
    where F: std::marker::Destruct, U: std::marker::Destruct
    requires o is Some ==> f.requires((o->Some_0,)),
    ensures
        o is None ==> r == default,
        o is Some ==> f.ensures((o->Some_0,), r);

// i32::rotate_right (re-proved against core by kani/std_idioms.rs::check_rotr_spec)
pub open spec fn i32_rotr(x: i32, n: u32) -> i32 {
    ((((x as u32) >> n) | ((x as u32) << ((32 - n) as u32))) as i32)
}
pub assume_specification [i32::rotate_right] (x: i32, n: u32) -> (r: i32)
    ensures 0 < n < 32 ==> r == i32_rotr(x, n);

// Rust guarantee: no slice / Vec<u8> is longer than isize::MAX bytes
pub broadcast axiom fn axiom_slice_len(s: &[u8])
    ensures #[trigger] s@.len() <= isize::MAX;
