/*@ include path=enc_model.rs @*/
// ---------------- the Unreal 2 string (UE2 FString on the wire, as read by node-gamedig's unreal2 protocol) ----------------
// length byte n < 0x80: Latin-1 (Windows-1252) text of n bytes including its terminating NUL (n = 0: empty string);
// length byte 0x80|k: k UCS-2 (UTF-16LE) units, optionally preceded by a stray 0x01 byte.
// The decoded text is cleaned: ESC colour codes (ESC + 3 chars), control characters 0x01..0x1a and NULs are removed.
pub uninterp spec fn ue2_strip(t: Seq<char>) -> Seq<char>;     // colour codes and control characters removed
pub uninterp spec fn ue2_trim(t: Seq<char>) -> Seq<char>;      // leading/trailing NULs removed
pub open spec fn ue2_clean(t: Seq<char>) -> Seq<char> { ue2_trim(ue2_strip(t)) }
pub open spec fn ue2_ucs2(data: Seq<u8>) -> bool { data[0] >= 0x80 }
pub open spec fn ue2_start(data: Seq<u8>) -> int {
    if !ue2_ucs2(data) { 0 } else if data.len() > 1 && data[1] == 1 { 2 } else { 1 }
}
pub open spec fn ue2_len(data: Seq<u8>, d0: u8) -> int {
    if ue2_ucs2(data) { ((data[0] & 0x7f) as int) * 2 } else { first_index_of(data, d0) + 1 }
}
pub open spec fn ue2_text_start(data: Seq<u8>, d0: u8) -> int { if first_index_of(data, d0) >= 1 { 1 } else { first_index_of(data, d0) } }
pub open spec fn ue2_consumed(data: Seq<u8>, d0: u8) -> nat {
    if ue2_start(data) + ue2_len(data, d0) <= data.len() { (ue2_start(data) + ue2_len(data, d0)) as nat } else { data.len() }
}
pub open spec fn ue2_ok(data: Seq<u8>, d0: u8) -> bool {
    data.len() >= 1 && if ue2_ucs2(data) {
        ue2_start(data) + ue2_len(data, d0) <= data.len() && !utf16le_err(data.subrange(ue2_start(data), ue2_start(data) + ue2_len(data, d0)))
    } else {
        !w1252_err(data.subrange(ue2_text_start(data, d0), first_index_of(data, d0)))
    }
}
pub open spec fn ue2_txt(data: Seq<u8>, d0: u8) -> Seq<char> {
    if ue2_ucs2(data) { ue2_clean(utf16le_text(data.subrange(ue2_start(data), ue2_start(data) + ue2_len(data, d0)))) }
    else { ue2_clean(w1252_text(data.subrange(ue2_text_start(data, d0), first_index_of(data, d0)))) }
}

