/*@ include path=prelude_err.rs @*/
/*@ include path=prelude_bo.rs @*/
