// ---- little/big endian decoding of byte sequences (spec vocabulary) ----
pub open spec fn le_nat(s: Seq<u8>) -> nat
    decreases s.len()
{
    if s.len() == 0 { 0 } else { (s[0] as nat) + 256 * le_nat(s.subrange(1, s.len() as int)) }
}
pub open spec fn be_nat(s: Seq<u8>) -> nat
    decreases s.len()
{
    if s.len() == 0 { 0 } else { be_nat(s.subrange(0, s.len() - 1)) * 256 + (s[s.len() - 1] as nat) }
}
pub open spec fn ord_nat(le: bool, s: Seq<u8>) -> nat { if le { le_nat(s) } else { be_nat(s) } }

// two's complement reinterpretation
pub open spec fn as_signed(v: nat, bits: nat) -> int {
    if v >= vstd::arithmetic::power2::pow2((bits - 1) as nat) { v as int - vstd::arithmetic::power2::pow2(bits) as int } else { v as int }
}
pub uninterp spec fn f32_of_bits(v: nat) -> f32;
pub uninterp spec fn f64_of_bits(v: nat) -> f64;

pub trait ByteOrder: Sized {
    spec fn is_le() -> bool;
    fn read_u16(buf: &[u8]) -> (r: u16)
        requires buf@.len() >= 2
        ensures r as nat == ord_nat(Self::is_le(), buf@.subrange(0, 2));
    fn read_i16(buf: &[u8]) -> (r: i16)
        requires buf@.len() >= 2
        ensures r as int == as_signed(ord_nat(Self::is_le(), buf@.subrange(0, 2)), 16);
    fn read_u32(buf: &[u8]) -> (r: u32)
        requires buf@.len() >= 4
        ensures r as nat == ord_nat(Self::is_le(), buf@.subrange(0, 4));
    fn read_i32(buf: &[u8]) -> (r: i32)
        requires buf@.len() >= 4
        ensures r as int == as_signed(ord_nat(Self::is_le(), buf@.subrange(0, 4)), 32);
    fn read_u64(buf: &[u8]) -> (r: u64)
        requires buf@.len() >= 8
        ensures r as nat == ord_nat(Self::is_le(), buf@.subrange(0, 8));
    fn read_i64(buf: &[u8]) -> (r: i64)
        requires buf@.len() >= 8
        ensures r as int == as_signed(ord_nat(Self::is_le(), buf@.subrange(0, 8)), 64);
    fn read_f32(buf: &[u8]) -> (r: f32)
        requires buf@.len() >= 4
        ensures r == f32_of_bits(ord_nat(Self::is_le(), buf@.subrange(0, 4)));
    fn read_f64(buf: &[u8]) -> (r: f64)
        requires buf@.len() >= 8
        ensures r == f64_of_bits(ord_nat(Self::is_le(), buf@.subrange(0, 8)));
    fn read_u16_into(src: &[u8], dst: &mut [u16])
        requires src@.len() == 2 * old(dst)@.len()
        ensures
            final(dst)@.len() == old(dst)@.len(),
            forall|i: int| 0 <= i < final(dst)@.len() ==> (#[trigger] final(dst)@[i]) as nat == ord_nat(Self::is_le(), src@.subrange(2 * i, 2 * i + 2));
}
pub struct LittleEndian;
pub struct BigEndian;
impl ByteOrder for LittleEndian {
    open spec fn is_le() -> bool { true }
    #[verifier::external_body] fn read_u16(buf: &[u8]) -> (r: u16) { unimplemented!() }
    #[verifier::external_body] fn read_i16(buf: &[u8]) -> (r: i16) { unimplemented!() }
    #[verifier::external_body] fn read_u32(buf: &[u8]) -> (r: u32) { unimplemented!() }
    #[verifier::external_body] fn read_i32(buf: &[u8]) -> (r: i32) { unimplemented!() }
    #[verifier::external_body] fn read_u64(buf: &[u8]) -> (r: u64) { unimplemented!() }
    #[verifier::external_body] fn read_i64(buf: &[u8]) -> (r: i64) { unimplemented!() }
    #[verifier::external_body] fn read_f32(buf: &[u8]) -> (r: f32) { unimplemented!() }
    #[verifier::external_body] fn read_f64(buf: &[u8]) -> (r: f64) { unimplemented!() }
    #[verifier::external_body] fn read_u16_into(src: &[u8], dst: &mut [u16]) { unimplemented!() }
}
impl ByteOrder for BigEndian {
    open spec fn is_le() -> bool { false }
    #[verifier::external_body] fn read_u16(buf: &[u8]) -> (r: u16) { unimplemented!() }
    #[verifier::external_body] fn read_i16(buf: &[u8]) -> (r: i16) { unimplemented!() }
    #[verifier::external_body] fn read_u32(buf: &[u8]) -> (r: u32) { unimplemented!() }
    #[verifier::external_body] fn read_i32(buf: &[u8]) -> (r: i32) { unimplemented!() }
    #[verifier::external_body] fn read_u64(buf: &[u8]) -> (r: u64) { unimplemented!() }
    #[verifier::external_body] fn read_i64(buf: &[u8]) -> (r: i64) { unimplemented!() }
    #[verifier::external_body] fn read_f32(buf: &[u8]) -> (r: f32) { unimplemented!() }
    #[verifier::external_body] fn read_f64(buf: &[u8]) -> (r: f64) { unimplemented!() }
    #[verifier::external_body] fn read_u16_into(src: &[u8], dst: &mut [u16]) { unimplemented!() }
}
