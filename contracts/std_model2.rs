// ===== more ASSUMED std specs (collections / conversions) used by the protocol units =====
pub assume_specification<T: Clone> [<[T]>::to_vec] (s: &[T]) -> (r: Vec<T>)
    ensures r@ == s@;   // for T = u8 (the only instantiation); alloc is bounded by the slice itself

pub assume_specification [u8::to_ascii_lowercase] (b: &u8) -> (r: u8)
    ensures r == (if 65 <= *b <= 90 { (*b + 32) as u8 } else { *b });

// R8:extend_vec      `a.extend(b)` with b: Vec<T>   (appends b)
#[verifier::external_body]
pub fn idiom_extend_vec<T>(a: &mut Vec<T>, b: Vec<T>)
    ensures final(a)@ == old(a)@ + b@
{ a.extend(b) }
// R8:extend_ref      `a.extend(&b)` with b: Vec<u8>
#[verifier::external_body]
pub fn idiom_extend_ref(a: &mut Vec<u8>, b: &Vec<u8>)
    ensures final(a)@ == old(a)@ + b@
{ a.extend(b) }
// R8:concat2         `[a, b].concat()` with a, b: Vec<u8>
#[verifier::external_body]
pub fn idiom_concat2(a: Vec<u8>, b: Vec<u8>) -> (r: Vec<u8>)
    ensures r@ == a@ + b@
{ [a, b].concat() }

// String is a lawful hash-table key (Eq/Hash are consistent and deterministic); vstd states this for the integer
// types only
pub broadcast axiom fn axiom_string_obeys_key_model()
    ensures #[trigger] vstd::std_specs::hash::obeys_key_model::<String>();

// std::mem::take (ASSUMED, std documentation): returns the old value and leaves T::default() behind
pub uninterp spec fn default_spec<T>() -> T;
pub assume_specification<T: Default>[ std::mem::take::<T> ](dest: &mut T) -> (r: T)
    ensures r == *old(dest), *final(dest) == default_spec::<T>();
// Vec<u8>::default() is the empty vector
pub broadcast axiom fn axiom_default_vec_u8()
    ensures (#[trigger] default_spec::<Vec<u8>>())@ == Seq::<u8>::empty();

// Option::or (ASSUMED, std documentation)
pub assume_specification<T>[ Option::<T>::or ](a: Option<T>, b: Option<T>) -> (r: Option<T>)
    ensures r == (if a is Some { a } else { b });
