// ===== model of crate::socket (UDP/TCP transport) and std::net addresses =====
// The real sockets are std::net wrappers (foreign code).  ASSUMED contract, taken from socket.rs:
//   new     : connects/binds to the given address; nothing sent yet
//   send    : Err => kind PacketSend; Ok => exactly `data` was handed to the transport (appended to the ghost log)
//   receive : Err => kind PacketReceive (may happen at any time: timeouts are not predictable);
//             Ok  => the next datagram of the server's (finite) reply script, truncated to the requested size
// `sent()` is the ghost send log, `script()` the datagrams the server will still send ("finite reply script followed
// by silence" of properties C01/C13), `recvd()` counts datagrams delivered.
// std::net::{Ipv4Addr, IpAddr}: modelled as plain data (four octets); IPv6 addresses stay abstract
pub struct Ipv4Addr { pub a: u8, pub b: u8, pub c: u8, pub d: u8 }
impl Ipv4Addr {
    pub fn new(a: u8, b: u8, c: u8, d: u8) -> (r: Self) ensures r == (Ipv4Addr { a, b, c, d }) { Ipv4Addr { a, b, c, d } }
}
impl Clone for Ipv4Addr { fn clone(&self) -> (r: Self) ensures r == *self { Ipv4Addr { a: self.a, b: self.b, c: self.c, d: self.d } } }
impl Copy for Ipv4Addr {}
#[verifier::external_body]
pub struct Ipv6Addr { _p: core::marker::PhantomData<()> }
impl Clone for Ipv6Addr { #[verifier::external_body] fn clone(&self) -> (r: Self) ensures r == *self { unimplemented!() } }
impl Copy for Ipv6Addr {}
pub enum IpAddr { V4(Ipv4Addr), V6(Ipv6Addr) }
impl IpAddr {
    // std::net::IpAddr::is_unspecified (ASSUMED for IPv4 from the std documentation: true exactly for 0.0.0.0)
    #[verifier::external_body]
    pub fn is_unspecified(&self) -> (r: bool)
        ensures self is V4 ==> r == (*self == IpAddr::V4(Ipv4Addr { a: 0, b: 0, c: 0, d: 0 }))
    { unimplemented!() }
}
// only so that `ip.to_string()` type-checks inside assumed (external_body) idiom helpers
#[verifier::external]
impl std::fmt::Display for IpAddr { fn fmt(&self, f: &mut std::fmt::Formatter<'_>) -> std::fmt::Result { unimplemented!() } }
#[verifier::external_body]
pub struct SocketAddr { _p: core::marker::PhantomData<()> }
impl SocketAddr {
    pub uninterp spec fn ip(&self) -> IpAddr;
    pub uninterp spec fn port(&self) -> u16;
    pub uninterp spec fn new_spec(ip: IpAddr, port: u16) -> SocketAddr;
    #[verifier::external_body]
    pub fn new(ip: IpAddr, port: u16) -> (r: Self)
        ensures r == Self::new_spec(ip, port), r.ip() == ip, r.port() == port
    { unimplemented!() }
}
impl Clone for IpAddr { #[verifier::external_body] fn clone(&self) -> (r: Self) ensures r == *self { unimplemented!() } }
impl Copy for IpAddr {}
#[verifier::external_body]
pub struct TimeoutSettings { _p: core::marker::PhantomData<()> }
impl TimeoutSettings {
    pub uninterp spec fn retries(&self) -> usize;
    pub uninterp spec fn default_retries() -> usize;
    #[verifier::external_body]
    pub fn get_retries_or_default(timeout_settings: &Option<TimeoutSettings>) -> (r: usize)
        ensures r == (if timeout_settings is Some { timeout_settings->Some_0.retries() } else { Self::default_retries() })
    { unimplemented!() }
}

/// failures of the transport itself (as opposed to a malformed reply)
pub open spec fn is_transport_err(k: GDErrorKind) -> bool { k == PacketSend || k == PacketReceive || k == SocketBind || k == SocketConnect }
pub const DEFAULT_PACKET_SIZE: usize = 1024;
pub open spec fn truncated(d: Seq<u8>, size: Option<usize>) -> Seq<u8> {
    let n = if size is Some { size->Some_0 as int } else { DEFAULT_PACKET_SIZE as int };
    if d.len() <= n { d } else { d.subrange(0, n) }
}
/// what the server behind an address will send (uninterpreted: every property quantifies over it)
pub uninterp spec fn server_script(addr: SocketAddr) -> Seq<Seq<u8>>;

#[verifier::external_body]
pub struct UdpSocket { _p: core::marker::PhantomData<()> }
impl UdpSocket {
    pub uninterp spec fn dest(&self) -> SocketAddr;
    pub uninterp spec fn sent(&self) -> Seq<Seq<u8>>;
    /// every datagram handed to `send`, whether or not the transport accepted it
    pub uninterp spec fn attempts(&self) -> Seq<Seq<u8>>;
    pub uninterp spec fn recvd(&self) -> nat;
    pub uninterp spec fn script(&self) -> Seq<Seq<u8>>;
    pub open spec fn pending(&self) -> nat { self.script().len() }
    #[verifier::external_body]
    pub fn new(address: &SocketAddr, timeout_settings: &Option<TimeoutSettings>) -> (r: GDResult<Self>)
        ensures r is Ok ==> r->Ok_0.dest() == *address && r->Ok_0.sent() == Seq::<Seq<u8>>::empty() && r->Ok_0.recvd() == 0
                         && r->Ok_0.attempts() == Seq::<Seq<u8>>::empty()
                         && r->Ok_0.script() == server_script(*address),
                r is Err ==> r->Err_0.kind == SocketBind || r->Err_0.kind == SocketConnect
    { unimplemented!() }
    #[verifier::external_body]
    pub fn send(&mut self, data: &[u8]) -> (r: GDResult<()>)
        ensures
            final(self).dest() == old(self).dest(),
            final(self).recvd() == old(self).recvd(), final(self).script() == old(self).script(),
            final(self).attempts() == old(self).attempts().push(data@),
            r is Ok ==> final(self).sent() == old(self).sent().push(data@),
            r is Err ==> final(self).sent() == old(self).sent() && r->Err_0.kind == PacketSend,
    { unimplemented!() }
    #[verifier::external_body]
    pub fn receive(&mut self, size: Option<usize>) -> (r: GDResult<Vec<u8>>)
        ensures
            final(self).dest() == old(self).dest(),
            final(self).sent() == old(self).sent(), final(self).attempts() == old(self).attempts(),
            r is Ok ==> old(self).script().len() > 0
                     && r->Ok_0@ == truncated(old(self).script()[0], size)
                     && final(self).script() == old(self).script().drop_first()
                     && final(self).recvd() == old(self).recvd() + 1,
            r is Err ==> final(self).recvd() == old(self).recvd() && final(self).script() == old(self).script()
                      && r->Err_0.kind == PacketReceive,
    { unimplemented!() }
}
#[verifier::external_body]
pub struct TcpSocket { _p: core::marker::PhantomData<()> }
impl TcpSocket {
    pub uninterp spec fn dest(&self) -> SocketAddr;
    pub uninterp spec fn sent(&self) -> Seq<Seq<u8>>;
    /// every datagram handed to `send`, whether or not the transport accepted it
    pub uninterp spec fn attempts(&self) -> Seq<Seq<u8>>;
    pub uninterp spec fn recvd(&self) -> nat;
    pub uninterp spec fn script(&self) -> Seq<Seq<u8>>;
    pub open spec fn pending(&self) -> nat { self.script().len() }
    #[verifier::external_body]
    pub fn new(address: &SocketAddr, timeout_settings: &Option<TimeoutSettings>) -> (r: GDResult<Self>)
        ensures r is Ok ==> r->Ok_0.dest() == *address && r->Ok_0.sent() == Seq::<Seq<u8>>::empty() && r->Ok_0.recvd() == 0
                         && r->Ok_0.attempts() == Seq::<Seq<u8>>::empty()
                         && r->Ok_0.script() == server_script(*address),
                r is Err ==> r->Err_0.kind == SocketBind || r->Err_0.kind == SocketConnect
    { unimplemented!() }
    #[verifier::external_body]
    pub fn send(&mut self, data: &[u8]) -> (r: GDResult<()>)
        ensures
            final(self).dest() == old(self).dest(),
            final(self).recvd() == old(self).recvd(), final(self).script() == old(self).script(),
            final(self).attempts() == old(self).attempts().push(data@),
            r is Ok ==> final(self).sent() == old(self).sent().push(data@),
            r is Err ==> final(self).sent() == old(self).sent() && r->Err_0.kind == PacketSend,
    { unimplemented!() }
    // read_to_end on a stream: everything the peer sends until it closes (no size bound: see the C13 note on TCP)
    #[verifier::external_body]
    pub fn receive(&mut self, size: Option<usize>) -> (r: GDResult<Vec<u8>>)
        ensures
            final(self).dest() == old(self).dest(),
            final(self).sent() == old(self).sent(), final(self).attempts() == old(self).attempts(),
            r is Ok ==> old(self).script().len() > 0 && r->Ok_0@ == old(self).script()[0]
                     && final(self).script() == old(self).script().drop_first()
                     && final(self).recvd() == old(self).recvd() + 1,
            r is Err ==> final(self).recvd() == old(self).recvd() && final(self).script() == old(self).script()
                      && r->Err_0.kind == PacketReceive,
    { unimplemented!() }
}
