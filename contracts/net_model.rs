// ===== model of crate::socket (UDP/TCP transport) =====
// The real sockets are std::net wrappers (foreign code).  ASSUMED contract, taken from socket.rs:
//   send    : Err => kind PacketSend; Ok => exactly `data` was handed to the transport (appended to the ghost log)
//   receive : Err => kind PacketReceive; Ok => one datagram of at most the requested size (default 1024)
// `sent()` / `recvd()` are ghost logs used by C09/C10/C11/C13 contracts.
#[verifier::external_body]
pub struct UdpSocket { _p: core::marker::PhantomData<()> }
pub const DEFAULT_PACKET_SIZE: usize = 1024;
impl UdpSocket {
    pub uninterp spec fn sent(&self) -> Seq<Seq<u8>>;
    pub uninterp spec fn recvd(&self) -> nat;
    /// datagrams the server will still send before going silent (the property's "finite reply script")
    pub uninterp spec fn pending(&self) -> nat;
    #[verifier::external_body]
    pub fn send(&mut self, data: &[u8]) -> (r: GDResult<()>)
        ensures
            final(self).recvd() == old(self).recvd(), final(self).pending() == old(self).pending(),
            r is Ok ==> final(self).sent() == old(self).sent().push(data@),
            r is Err ==> final(self).sent() == old(self).sent() && r->Err_0.kind == PacketSend,
    { unimplemented!() }
    #[verifier::external_body]
    pub fn receive(&mut self, size: Option<usize>) -> (r: GDResult<Vec<u8>>)
        ensures
            final(self).sent() == old(self).sent(),
            r is Ok ==> final(self).recvd() == old(self).recvd() + 1 && final(self).pending() + 1 == old(self).pending()
                     && r->Ok_0@.len() <= (if size is Some { size->Some_0 } else { DEFAULT_PACKET_SIZE }),
            r is Err ==> final(self).recvd() == old(self).recvd() && final(self).pending() == old(self).pending()
                      && r->Err_0.kind == PacketReceive,
    { unimplemented!() }
}
#[verifier::external_body]
pub struct TcpSocket { _p: core::marker::PhantomData<()> }
impl TcpSocket {
    pub uninterp spec fn sent(&self) -> Seq<Seq<u8>>;
    pub uninterp spec fn recvd(&self) -> nat;
    /// datagrams the server will still send before going silent (the property's "finite reply script")
    pub uninterp spec fn pending(&self) -> nat;
    #[verifier::external_body]
    pub fn send(&mut self, data: &[u8]) -> (r: GDResult<()>)
        ensures
            final(self).recvd() == old(self).recvd(), final(self).pending() == old(self).pending(),
            r is Ok ==> final(self).sent() == old(self).sent().push(data@),
            r is Err ==> final(self).sent() == old(self).sent() && r->Err_0.kind == PacketSend,
    { unimplemented!() }
    // read_to_end on a stream: no size bound other than the allocator's (len <= isize::MAX)
    #[verifier::external_body]
    pub fn receive(&mut self, size: Option<usize>) -> (r: GDResult<Vec<u8>>)
        ensures
            final(self).sent() == old(self).sent(),
            r is Ok ==> final(self).recvd() == old(self).recvd() + 1 && final(self).pending() + 1 == old(self).pending(),
            r is Err ==> final(self).recvd() == old(self).recvd() && final(self).pending() == old(self).pending()
                      && r->Err_0.kind == PacketReceive,
    { unimplemented!() }
}
