// 64-bit target (the sandbox and every supported platform of the crate`s CI); needed for usize bit-vector reasoning
global size_of usize == 8;

// ===== prelude: model of the crate-level types the extracted functions mention =====
// R2: GDError is modelled as {kind}; the error *source* and *backtrace* are dropped (no property
//     speaks about them).  `K.context(x)` and `K.into()` keep their real syntax.
// R5: byteorder::ByteOrder is an in-file trait; the specs of its read_* functions are ASSUMED here and
//     re-proved against the real byteorder code by the Kani harnesses in kani/byteorder_specs.rs.

pub struct GDError { pub kind: GDErrorKind }
pub type GDResult<T> = Result<T, GDError>;

impl GDErrorKind {
    #[verifier::external_body]
    pub fn context<E>(self, source: E) -> (r: GDError)
        ensures r.kind == self
    { unimplemented!() }
}
impl vstd::std_specs::convert::FromSpecImpl<GDErrorKind> for GDError {
    open spec fn obeys_from_spec() -> bool { true }
    open spec fn from_spec(v: GDErrorKind) -> Self { GDError { kind: v } }
}
impl From<GDErrorKind> for GDError {
    fn from(value: GDErrorKind) -> (r: Self) { GDError { kind: value } }
}

// R1 targets
#[verifier::external_body]
pub fn verif_format() -> String { unimplemented!() }
pub fn verif_unit() { }

