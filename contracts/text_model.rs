// ===== text model for decode-correctness contracts (DESIGN 2.3) =====
// UTF-8 transcoding is abstract: utf8_bytes is the (uninterpreted) encoder; the three axioms below are
// facts about UTF-8 and are part of the trusted base.
pub uninterp spec fn utf8_bytes(t: Seq<char>) -> Seq<u8>;
pub open spec fn no_nul(t: Seq<char>) -> bool { forall|i: int| 0 <= i < t.len() ==> t[i] != '\0' }
pub open spec fn no_byte(s: Seq<u8>, b: u8) -> bool { forall|i: int| 0 <= i < s.len() ==> s[i] != b }

pub broadcast axiom fn axiom_utf8_roundtrip(t: Seq<char>)
    ensures #![trigger utf8_bytes(t)]
        utf8_valid(utf8_bytes(t)), utf8_text(utf8_bytes(t)) == t;
pub broadcast axiom fn axiom_utf8_no_nul(t: Seq<char>)
    requires no_nul(t)
    ensures #![trigger utf8_bytes(t)] no_byte(utf8_bytes(t), 0u8);
pub broadcast axiom fn axiom_utf8_empty()
    ensures #[trigger] utf8_bytes(Seq::<char>::empty()) == Seq::<u8>::empty(), utf8_text(Seq::<u8>::empty()) == Seq::<char>::empty(), utf8_valid(Seq::<u8>::empty());

// ---- opaque stream algebra: the decode-correctness proofs only ever see these three functions, so the SMT solver
// never instantiates vstd's Seq axioms on packet contents (linear number of instantiations per parser) ----
#[verifier::opaque]
pub open spec fn cat(a: Seq<u8>, t: Seq<u8>) -> Seq<u8> { a + t }
#[verifier::opaque]
pub open spec fn head_of(s: Seq<u8>, n: int) -> Seq<u8> { s.subrange(0, n) }
#[verifier::opaque]
pub open spec fn tail_of(s: Seq<u8>, n: int) -> Seq<u8> { s.subrange(n, s.len() as int) }
pub broadcast proof fn lemma_split_cat(a: Seq<u8>, t: Seq<u8>, n: int)
    ensures
        #![trigger head_of(cat(a, t), n)]
        #![trigger tail_of(cat(a, t), n)]
        n == a.len() ==> head_of(cat(a, t), n) == a && tail_of(cat(a, t), n) == t,
{
    reveal(cat); reveal(head_of); reveal(tail_of);
    if n == a.len() {
        assert((a + t).subrange(0, n) =~= a);
        assert((a + t).subrange(n, (a + t).len() as int) =~= t);
    }
}
pub broadcast proof fn lemma_cat_len(a: Seq<u8>, t: Seq<u8>)
    ensures #[trigger] cat(a, t).len() == a.len() + t.len()
{ reveal(cat); }
pub proof fn lemma_cat_is_add(a: Seq<u8>, t: Seq<u8>)
    ensures cat(a, t) == a + t
{ reveal(cat); }
pub broadcast group group_stream { lemma_split_cat, lemma_cat_len }

/// NUL-terminated string on the wire
pub open spec fn cstr(t: Seq<char>) -> Seq<u8> { utf8_bytes(t).push(0u8) }

// ---- sequence algebra used by every "parser is the left inverse of the encoder" proof ----
pub broadcast proof fn lemma_first_index_of_concat(a: Seq<u8>, b: Seq<u8>, x: u8)
    requires no_byte(a, x), b.len() > 0, b[0] == x
    ensures #[trigger] first_index_of(a + b, x) == a.len()
    decreases a.len()
{
    if a.len() == 0 {
        assert(a + b =~= b);
    } else {
        let s = a + b;
        assert(s[0] == a[0]);
        assert(s.subrange(1, s.len() as int) =~= a.subrange(1, a.len() as int) + b);
        lemma_first_index_of_concat(a.subrange(1, a.len() as int), b, x);
    }
}
pub broadcast proof fn lemma_concat_prefix(a: Seq<u8>, b: Seq<u8>)
    ensures #![trigger (a + b).subrange(0, a.len() as int)]
        (a + b).subrange(0, a.len() as int) == a
{ assert((a + b).subrange(0, a.len() as int) =~= a); }
pub broadcast proof fn lemma_concat_suffix(a: Seq<u8>, b: Seq<u8>)
    ensures #![trigger (a + b).subrange(a.len() as int, (a + b).len() as int)]
        (a + b).subrange(a.len() as int, (a + b).len() as int) == b
{ assert((a + b).subrange(a.len() as int, (a + b).len() as int) =~= b); }
pub broadcast proof fn lemma_push_concat(a: Seq<u8>, x: u8, b: Seq<u8>)
    ensures #![trigger a.push(x) + b] a.push(x) + b == a + (seq![x] + b)
{ assert(a.push(x) + b =~= a + (seq![x] + b)); }
pub broadcast proof fn lemma_sub_sub(s: Seq<u8>, i: int, j: int)
    requires 0 <= i <= j <= s.len()
    ensures #![trigger s.subrange(i, s.len() as int).subrange(j - i, s.len() - i)]
        s.subrange(i, s.len() as int).subrange(j - i, s.len() - i) == s.subrange(j, s.len() as int)
{ assert(s.subrange(i, s.len() as int).subrange(j - i, s.len() - i) =~= s.subrange(j, s.len() as int)); }

pub broadcast proof fn lemma_empty_concat(x: Seq<u8>)
    ensures #![trigger Seq::<u8>::empty() + x] Seq::<u8>::empty() + x == x
{ assert(Seq::<u8>::empty() + x =~= x); }
pub broadcast proof fn lemma_concat_assoc(a: Seq<u8>, b: Seq<u8>, c: Seq<u8>)
    ensures #![trigger (a + b) + c] (a + b) + c == a + (b + c)
{ assert((a + b) + c =~= a + (b + c)); }
/// subranges of a concatenation that fall on the seam (one instantiation per subrange-of-concatenation term)
pub broadcast proof fn lemma_sub_of_concat(a: Seq<u8>, t: Seq<u8>, i: int, j: int)
    ensures
        #![trigger (a + t).subrange(i, j)]
        (i == 0 && j == a.len()) ==> (a + t).subrange(i, j) == a,
        (i == a.len() && j == (a + t).len()) ==> (a + t).subrange(i, j) == t,
{
    if i == 0 && j == a.len() { assert((a + t).subrange(i, j) =~= a); }
    if i == a.len() && j == (a + t).len() { assert((a + t).subrange(i, j) =~= t); }
}
pub broadcast group group_step { lemma_sub_of_concat, lemma_empty_concat }
pub broadcast group group_text { lemma_empty_concat, lemma_concat_assoc,
    axiom_utf8_roundtrip, axiom_utf8_no_nul, axiom_utf8_empty,
    lemma_first_index_of_concat, lemma_concat_prefix, lemma_concat_suffix, lemma_push_concat, lemma_sub_sub,
}
