// ===== ASSUMED models of third-party crates used on the reply path (bodies not verified) =====
// bzip2_rs::decoder::Decoder: total functions returning Ok/Err; `read` fills (part of) the buffer, never resizes it.
#[verifier::external_body]
pub struct Decoder { _p: core::marker::PhantomData<()> }
#[verifier::external_body]
pub struct DecoderError { _p: core::marker::PhantomData<()> }
pub uninterp spec fn bz_decompress(compressed: Seq<u8>, n: nat) -> Seq<u8>;
impl Decoder {
    pub uninterp spec fn fed(&self) -> Seq<u8>;
    #[verifier::external_body]
    pub fn new() -> (r: Self) ensures r.fed() == Seq::<u8>::empty() { unimplemented!() }
    #[verifier::external_body]
    pub fn write(&mut self, buf: &[u8]) -> (r: Result<usize, DecoderError>)
        ensures r is Ok ==> final(self).fed() == old(self).fed() + buf@
    { unimplemented!() }
    #[verifier::external_body]
    pub fn read(&mut self, buf: &mut [u8]) -> (r: Result<usize, DecoderError>)
        ensures final(buf)@.len() == old(buf)@.len(),
                r is Ok ==> final(buf)@ == bz_decompress(old(self).fed(), old(buf)@.len())
    { unimplemented!() }
}
pub uninterp spec fn crc32(b: Seq<u8>) -> u32;
pub mod crc32fast {
    use super::*;
    #[verifier::external_body]
    pub fn hash(b: &[u8]) -> (r: u32) ensures r == crc32(b@) { unimplemented!() }
}
