// ===== wire vocabulary: fixed-width decoders (as the reader defines them) and their inverse encoders =====
pub open spec fn dec_u16(le: bool, s: Seq<u8>) -> u16 { ord_nat(le, s) as u16 }
pub open spec fn dec_u32(le: bool, s: Seq<u8>) -> u32 { ord_nat(le, s) as u32 }
pub open spec fn dec_u64(le: bool, s: Seq<u8>) -> u64 { ord_nat(le, s) as u64 }
pub open spec fn dec_i16(le: bool, s: Seq<u8>) -> i16 { as_signed(ord_nat(le, s), 16) as i16 }
pub open spec fn dec_i32(le: bool, s: Seq<u8>) -> i32 { as_signed(ord_nat(le, s), 32) as i32 }
pub open spec fn dec_f32(le: bool, s: Seq<u8>) -> f32 { f32_of_bits(ord_nat(le, s)) }

pub open spec fn rev(s: Seq<u8>) -> Seq<u8> { Seq::new(s.len(), |i: int| s[s.len() - 1 - i]) }
#[verifier::opaque]
pub open spec fn enc_u16(le: bool, x: u16) -> Seq<u8> {
    let l = seq![(x & 0xff) as u8, ((x >> 8) & 0xff) as u8];
    if le { l } else { rev(l) }
}
#[verifier::opaque]
pub open spec fn enc_u32(le: bool, x: u32) -> Seq<u8> {
    let l = seq![(x & 0xff) as u8, ((x >> 8) & 0xff) as u8, ((x >> 16) & 0xff) as u8, ((x >> 24) & 0xff) as u8];
    if le { l } else { rev(l) }
}
#[verifier::opaque]
pub open spec fn enc_u64(le: bool, x: u64) -> Seq<u8> {
    let l = seq![(x & 0xff) as u8, ((x >> 8) & 0xff) as u8, ((x >> 16) & 0xff) as u8, ((x >> 24) & 0xff) as u8,
                 ((x >> 32) & 0xff) as u8, ((x >> 40) & 0xff) as u8, ((x >> 48) & 0xff) as u8, ((x >> 56) & 0xff) as u8];
    if le { l } else { rev(l) }
}
pub open spec fn i32_bits(x: i32) -> u32 { (if x >= 0 { x as int } else { x as int + 0x1_0000_0000 }) as u32 }
pub open spec fn enc_i32(le: bool, x: i32) -> Seq<u8> { enc_u32(le, i32_bits(x)) }
pub uninterp spec fn bits_of_f32(d: f32) -> u32;
pub broadcast axiom fn axiom_f32_bits(d: f32)
    ensures #[trigger] f32_of_bits(bits_of_f32(d) as nat) == d;
pub open spec fn enc_f32(le: bool, d: f32) -> Seq<u8> { enc_u32(le, bits_of_f32(d)) }

pub proof fn lemma_le_nat_unfold(s: Seq<u8>)
    ensures
        s.len() == 2 ==> le_nat(s) == s[0] as nat + 256 * (s[1] as nat),
        s.len() == 4 ==> le_nat(s) == s[0] as nat + 256 * (s[1] as nat) + 65536 * (s[2] as nat) + 16777216 * (s[3] as nat),
        s.len() == 2 ==> be_nat(s) == s[1] as nat + 256 * (s[0] as nat),
        s.len() == 4 ==> be_nat(s) == s[3] as nat + 256 * (s[2] as nat) + 65536 * (s[1] as nat) + 16777216 * (s[0] as nat),
{
    reveal_with_fuel(le_nat, 6);
    reveal_with_fuel(be_nat, 6);
    if s.len() == 2 {
        let t = s.subrange(1, 2);
        assert(t.subrange(1, 1).len() == 0);
        assert(le_nat(t) == t[0] as nat);
        let u = s.subrange(0, 1);
        assert(be_nat(u) == u[0] as nat) by { assert(u.subrange(0, 0).len() == 0); }
    }
    if s.len() == 4 {
        let t1 = s.subrange(1, 4); let t2 = t1.subrange(1, 3); let t3 = t2.subrange(1, 2);
        assert(t3.subrange(1, 1).len() == 0);
        assert(le_nat(t3) == t3[0] as nat);
        assert(le_nat(t2) == t2[0] as nat + 256 * le_nat(t3));
        assert(le_nat(t1) == t1[0] as nat + 256 * le_nat(t2));
        let u1 = s.subrange(0, 3); let u2 = u1.subrange(0, 2); let u3 = u2.subrange(0, 1);
        assert(u3.subrange(0, 0).len() == 0);
        assert(be_nat(u3) == u3[0] as nat);
        assert(be_nat(u2) == be_nat(u3) * 256 + u2[1] as nat);
        assert(be_nat(u1) == be_nat(u2) * 256 + u1[2] as nat);
    }
}
pub broadcast proof fn lemma_dec_enc_u16(le: bool, x: u16)
    ensures #[trigger] ord_nat(le, enc_u16(le, x)) == x as nat, dec_u16(le, enc_u16(le, x)) == x, enc_u16(le, x).len() == 2
{
    reveal(enc_u16);
    let s = enc_u16(le, x);
    lemma_le_nat_unfold(s);
    assert(x == (x & 0xff) + 256 * ((x >> 8) & 0xff)) by (bit_vector);
    assert((x & 0xff) < 256 && ((x >> 8) & 0xff) < 256) by (bit_vector);
}
pub broadcast proof fn lemma_dec_enc_u32(le: bool, x: u32)
    ensures #[trigger] ord_nat(le, enc_u32(le, x)) == x as nat, dec_u32(le, enc_u32(le, x)) == x, enc_u32(le, x).len() == 4
{
    reveal(enc_u32);
    let s = enc_u32(le, x);
    lemma_le_nat_unfold(s);
    assert(x == (x & 0xff) + 256 * ((x >> 8) & 0xff) + 65536 * ((x >> 16) & 0xff) + 16777216 * ((x >> 24) & 0xff)) by (bit_vector);
    assert((x & 0xff) < 256 && ((x >> 8) & 0xff) < 256 && ((x >> 16) & 0xff) < 256 && ((x >> 24) & 0xff) < 256) by (bit_vector);
}
pub proof fn lemma_nat8(le: bool, s: Seq<u8>)
    requires s.len() == 8
    ensures
        le_nat(s) == s[0] as nat + 256 * (s[1] as nat) + 65536 * (s[2] as nat) + 16777216 * (s[3] as nat)
            + 4294967296 * (s[4] as nat) + 1099511627776 * (s[5] as nat) + 281474976710656 * (s[6] as nat) + 72057594037927936 * (s[7] as nat),
        be_nat(s) == s[7] as nat + 256 * (s[6] as nat) + 65536 * (s[5] as nat) + 16777216 * (s[4] as nat)
            + 4294967296 * (s[3] as nat) + 1099511627776 * (s[2] as nat) + 281474976710656 * (s[1] as nat) + 72057594037927936 * (s[0] as nat),
{
    let lo = s.subrange(0, 4);
    let hi = s.subrange(4, 8);
    lemma_le_nat_unfold(lo);
    lemma_le_nat_unfold(hi);
    // le_nat(s) = le_nat(lo) + 2^32 * le_nat(hi): unfold four steps
    reveal_with_fuel(le_nat, 10);
    reveal_with_fuel(be_nat, 10);
    let t1 = s.subrange(1, 8); let t2 = t1.subrange(1, 7); let t3 = t2.subrange(1, 6); let t4 = t3.subrange(1, 5);
    let t5 = t4.subrange(1, 4); let t6 = t5.subrange(1, 3); let t7 = t6.subrange(1, 2);
    assert(t7.subrange(1, 1).len() == 0);
    assert(le_nat(t7) == t7[0] as nat);
    assert(le_nat(t6) == t6[0] as nat + 256 * le_nat(t7));
    assert(le_nat(t5) == t5[0] as nat + 256 * le_nat(t6));
    assert(le_nat(t4) == t4[0] as nat + 256 * le_nat(t5));
    assert(le_nat(t3) == t3[0] as nat + 256 * le_nat(t4));
    assert(le_nat(t2) == t2[0] as nat + 256 * le_nat(t3));
    assert(le_nat(t1) == t1[0] as nat + 256 * le_nat(t2));
    assert(le_nat(s) == s[0] as nat + 256 * le_nat(t1));
    let u1 = s.subrange(0, 7); let u2 = u1.subrange(0, 6); let u3 = u2.subrange(0, 5); let u4 = u3.subrange(0, 4);
    let u5 = u4.subrange(0, 3); let u6 = u5.subrange(0, 2); let u7 = u6.subrange(0, 1);
    assert(u7.subrange(0, 0).len() == 0);
    assert(be_nat(u7) == u7[0] as nat);
    assert(be_nat(u6) == be_nat(u7) * 256 + u6[1] as nat);
    assert(be_nat(u5) == be_nat(u6) * 256 + u5[2] as nat);
    assert(be_nat(u4) == be_nat(u5) * 256 + u4[3] as nat);
    assert(be_nat(u3) == be_nat(u4) * 256 + u3[4] as nat);
    assert(be_nat(u2) == be_nat(u3) * 256 + u2[5] as nat);
    assert(be_nat(u1) == be_nat(u2) * 256 + u1[6] as nat);
    assert(be_nat(s) == be_nat(u1) * 256 + s[7] as nat);
}
pub broadcast proof fn lemma_dec_enc_u64(le: bool, x: u64)
    ensures #[trigger] ord_nat(le, enc_u64(le, x)) == x as nat, dec_u64(le, enc_u64(le, x)) == x, enc_u64(le, x).len() == 8
{
    reveal(enc_u64);
    let s = enc_u64(le, x);
    lemma_nat8(le, s);
    assert(x == (x & 0xff) + 256 * ((x >> 8) & 0xff) + 65536 * ((x >> 16) & 0xff) + 16777216 * ((x >> 24) & 0xff)
        + 4294967296 * ((x >> 32) & 0xff) + 1099511627776 * ((x >> 40) & 0xff) + 281474976710656 * ((x >> 48) & 0xff)
        + 72057594037927936 * ((x >> 56) & 0xff)) by (bit_vector);
    assert((x & 0xff) < 256 && ((x >> 8) & 0xff) < 256 && ((x >> 16) & 0xff) < 256 && ((x >> 24) & 0xff) < 256
        && ((x >> 32) & 0xff) < 256 && ((x >> 40) & 0xff) < 256 && ((x >> 48) & 0xff) < 256 && ((x >> 56) & 0xff) < 256) by (bit_vector);
}
pub broadcast proof fn lemma_dec_enc_i32(le: bool, x: i32)
    ensures #[trigger] as_signed(ord_nat(le, enc_i32(le, x)), 32) == x as int, dec_i32(le, enc_i32(le, x)) == x, enc_i32(le, x).len() == 4
{
    reveal(enc_u32);
    let y = i32_bits(x);
    lemma_dec_enc_u32(le, y);
    let n = ord_nat(le, enc_u32(le, y));
    lemma_le_nat_unfold(enc_u32(le, y));
    assert((y & 0xff) < 256 && ((y >> 8) & 0xff) < 256 && ((y >> 16) & 0xff) < 256 && ((y >> 24) & 0xff) < 256) by (bit_vector);
    assert(n == y as nat);
    assert(vstd::arithmetic::power2::pow2(31) == 0x8000_0000 && vstd::arithmetic::power2::pow2(32) == 0x1_0000_0000) by {
        vstd::arithmetic::power2::lemma2_to64();
    }
}
pub broadcast proof fn lemma_dec_enc_f32(le: bool, d: f32)
    ensures #[trigger] f32_of_bits(ord_nat(le, enc_f32(le, d))) == d, dec_f32(le, enc_f32(le, d)) == d, enc_f32(le, d).len() == 4
{
    reveal(enc_u32);
    lemma_dec_enc_u32(le, bits_of_f32(d));
    axiom_f32_bits(d);
    let n = ord_nat(le, enc_u32(le, bits_of_f32(d)));
    lemma_le_nat_unfold(enc_u32(le, bits_of_f32(d)));
    let y = bits_of_f32(d);
    assert((y & 0xff) < 256 && ((y >> 8) & 0xff) < 256 && ((y >> 16) & 0xff) < 256 && ((y >> 24) & 0xff) < 256) by (bit_vector);
    assert(n == y as nat);
}
pub broadcast proof fn lemma_enc_len_u16(le: bool, x: u16) ensures #[trigger] enc_u16(le, x).len() == 2 { reveal(enc_u16); }
pub broadcast proof fn lemma_enc_len_u32(le: bool, x: u32) ensures #[trigger] enc_u32(le, x).len() == 4 { reveal(enc_u32); }
pub broadcast proof fn lemma_enc_len_u64(le: bool, x: u64) ensures #[trigger] enc_u64(le, x).len() == 8 { reveal(enc_u64); }
pub broadcast proof fn lemma_enc_len_i32(le: bool, x: i32) ensures #[trigger] enc_i32(le, x).len() == 4 { reveal(enc_u32); }
pub broadcast proof fn lemma_enc_len_f32(le: bool, x: f32) ensures #[trigger] enc_f32(le, x).len() == 4 { reveal(enc_u32); }
pub broadcast group group_wire { lemma_dec_enc_u64, lemma_enc_len_u16, lemma_enc_len_u32, lemma_enc_len_u64, lemma_enc_len_i32, lemma_enc_len_f32, lemma_dec_enc_u16, lemma_dec_enc_u32, lemma_dec_enc_i32, lemma_dec_enc_f32 }
