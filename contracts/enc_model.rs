// ===== ASSUMED model of encoding_rs (UTF_16LE / WINDOWS_1252 decode) =====
// decode(bytes) returns (text, encoding used, had_errors); bodies are third-party code.
pub uninterp spec fn utf16le_text(b: Seq<u8>) -> Seq<char>;
pub uninterp spec fn utf16le_err(b: Seq<u8>) -> bool;
pub uninterp spec fn w1252_text(b: Seq<u8>) -> Seq<char>;
pub uninterp spec fn w1252_err(b: Seq<u8>) -> bool;
/// stands for the `Cow<str>` returned by encoding_rs (only ever passed on to text post-processing)
#[verifier::external_body]
pub struct DecodedText { inner: String }
impl DecodedText {
    pub uninterp spec fn view(&self) -> Seq<char>;
}
impl core::ops::Deref for DecodedText {
    type Target = str;
    #[verifier::external_body]
    fn deref(&self) -> &str { unimplemented!() }
}
pub enum EncodingKind { Utf16Le, Windows1252 }
pub struct Encoding { pub kind: EncodingKind }
pub exec static UTF_16LE: Encoding ensures UTF_16LE.kind is Utf16Le { Encoding { kind: EncodingKind::Utf16Le } }
pub exec static WINDOWS_1252: Encoding ensures WINDOWS_1252.kind is Windows1252 { Encoding { kind: EncodingKind::Windows1252 } }
impl Encoding {
    #[verifier::external_body]
    pub fn decode(&self, bytes: &[u8]) -> (r: (DecodedText, &'static Encoding, bool))
        ensures
            self.kind is Utf16Le ==> r.0.view() == utf16le_text(bytes@) && r.2 == utf16le_err(bytes@),
            self.kind is Windows1252 ==> r.0.view() == w1252_text(bytes@) && r.2 == w1252_err(bytes@),
    { unimplemented!() }
}
