// ===== C13: allocation wrappers (rewrite R17) =====
// Every `Vec::with_capacity(n)`, `vec![x; n]`, `HashMap::with_capacity(n)` in an extracted reply-path function
// is routed through these wrappers, whose bodies ARE the std calls.  The ghost precondition is the property's
// allowance: one request never exceeds 16 MiB.  `elem_bound::<T>()` is an upper bound of size_of::<T>();
// the axioms below are checked by compile-time assertions in kani/verif_core.rs (size_bounds_hold).
pub const ALLOC_ONE_MAX: usize = 16 * 1024 * 1024;
pub uninterp spec fn elem_bound<T>() -> nat;
pub broadcast axiom fn axiom_elem_bound_any<T>()
    ensures #[trigger] elem_bound::<T>() <= 256, elem_bound::<T>() >= 1;
pub broadcast axiom fn axiom_elem_bound_u8()
    ensures #[trigger] elem_bound::<u8>() == 1;
pub broadcast axiom fn axiom_elem_bound_u16()
    ensures #[trigger] elem_bound::<u16>() == 2;
pub broadcast group group_alloc { axiom_elem_bound_any, axiom_elem_bound_u8, axiom_elem_bound_u16 }

/// the allowance: a fixed 16 MiB, or in proportion (<= 64x) to the bytes actually received
pub open spec fn alloc_ok(bytes: int, received: int) -> bool { bytes <= ALLOC_ONE_MAX || bytes <= 64 * received }
/// element counts up to 65536 are always within the allowance (65536 * 256 B = 16 MiB, see axiom_elem_bound_any)
pub const ALLOC_COUNT_MAX: usize = 65536;

#[verifier::external_body]
pub fn verif_vec_with_capacity<T>(n: usize, Ghost(received): Ghost<int>) -> (r: Vec<T>)
    requires n <= ALLOC_COUNT_MAX || alloc_ok(n * elem_bound::<T>(), received)
    ensures r@.len() == 0
{ Vec::with_capacity(n) }

#[verifier::external_body]
pub fn verif_vec_from_elem<T: Clone>(x: T, n: usize, Ghost(received): Ghost<int>) -> (r: Vec<T>)
    requires n <= ALLOC_COUNT_MAX || alloc_ok(n * elem_bound::<T>(), received)
    ensures r@.len() == n, forall|i: int| 0 <= i < n ==> r@[i] == x
{ vec![x; n] }

#[verifier::external_body]
pub fn verif_hashmap_with_capacity(n: usize, Ghost(received): Ghost<int>) -> (r: HashMap<String, String>)
    requires n <= ALLOC_COUNT_MAX || alloc_ok(n * 64, received)          // (String, String) bucket = 48 bytes + control byte, load factor 7/8
    ensures r@ == Map::<String, String>::empty()
{ HashMap::with_capacity(n) }
