use std::net::UdpSocket;
use std::thread;
use std::time::Duration;
use gamedig::protocols::valve::{self, Engine, GatheringSettings};
use gamedig::protocols::types::GatherToggle;
use gamedig::TimeoutSettings;

fn info_payload() -> Vec<u8> {
    // FF FF FF FF 'I' protocol name map folder game id players max bots type env vis vac version (no EDF)
    let mut p = vec![0xFF, 0xFF, 0xFF, 0xFF, 0x49, 17];
    for s in ["A long server name to split", "de_dust2", "cstrike", "Counter-Strike"] { p.extend(s.as_bytes()); p.push(0); }
    p.extend([10, 0, 3, 16, 0, b'd', b'l', 0, 1]);
    p.extend(b"1.0.0.0\0");
    p
}
fn frag(number: u8, total: u8, body: &[u8]) -> Vec<u8> {
    let mut f = vec![0xFE, 0xFF, 0xFF, 0xFF, 7, 0, 0, 0, total, number, 0xE0, 0x04];
    f.extend(body);
    f
}
fn run(order: &[usize]) -> gamedig::GDResult<valve::Response> {
    let server = UdpSocket::bind("127.0.0.1:0").unwrap();
    let addr = server.local_addr().unwrap();
    let p = info_payload();
    let frags = vec![frag(0, 3, &p[..10]), frag(1, 3, &p[10..25]), frag(2, 3, &p[25..])];
    let order = order.to_vec();
    let h = thread::spawn(move || {
        let mut buf = [0u8; 2048];
        let (_n, peer) = server.recv_from(&mut buf).unwrap();
        for i in order { server.send_to(&frags[i], peer).unwrap(); }
    });
    let ts = TimeoutSettings::new(Some(Duration::from_millis(500)), Some(Duration::from_millis(500)), None, 0).unwrap();
    let gs = GatheringSettings { players: GatherToggle::Skip, rules: GatherToggle::Skip, check_app_id: false };
    let r = valve::query(&addr, Engine::new(10), Some(gs), Some(ts));
    h.join().unwrap();
    r
}
#[test]
fn split_info_any_arrival_order() {
    let inorder = run(&[0, 1, 2]).expect("in-order reply must decode");
    assert_eq!(inorder.info.name, "A long server name to split");
    for order in [[0, 2, 1], [1, 0, 2], [1, 2, 0], [2, 0, 1], [2, 1, 0]] {
        let r = run(&order);
        assert_eq!(r.ok().map(|r| r.info), Some(inorder.info.clone()), "arrival order {:?}", order);
    }
}
