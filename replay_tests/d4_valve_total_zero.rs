use std::net::UdpSocket;
use std::thread;
use gamedig::protocols::valve::{self, Engine};
use gamedig::TimeoutSettings;
use std::time::Duration;

#[test]
fn split_total_zero() {
    let server = UdpSocket::bind("127.0.0.1:0").unwrap();
    let addr = server.local_addr().unwrap();
    let h = thread::spawn(move || {
        let mut buf = [0u8; 2048];
        let (_n, peer) = server.recv_from(&mut buf).unwrap();
        // split header FE FF FF FF, id = 1, total = 0, number = 0, size = 1248, payload
        let reply = [0xFE, 0xFF, 0xFF, 0xFF, 1, 0, 0, 0, 0, 0, 0xE0, 0x04, 0xFF, 0xFF, 0xFF, 0xFF, 0x49];
        server.send_to(&reply, peer).unwrap();
    });
    let ts = TimeoutSettings::new(Some(Duration::from_millis(500)), Some(Duration::from_millis(500)), None, 0).unwrap();
    let r = valve::query(&addr, Engine::new(440), None, Some(ts));
    h.join().unwrap();
    assert!(r.is_err());
}
