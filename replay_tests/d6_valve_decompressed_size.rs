use std::alloc::{GlobalAlloc, Layout, System};
use std::net::UdpSocket;
use std::sync::atomic::{AtomicUsize, Ordering};
use std::thread;
use std::time::Duration;
use gamedig::protocols::valve::{self, Engine};
use gamedig::TimeoutSettings;

struct Counting;
static MAX_REQ: AtomicUsize = AtomicUsize::new(0);
unsafe impl GlobalAlloc for Counting {
    unsafe fn alloc(&self, l: Layout) -> *mut u8 { MAX_REQ.fetch_max(l.size(), Ordering::Relaxed); System.alloc(l) }
    unsafe fn alloc_zeroed(&self, l: Layout) -> *mut u8 { MAX_REQ.fetch_max(l.size(), Ordering::Relaxed); System.alloc_zeroed(l) }
    unsafe fn realloc(&self, p: *mut u8, l: Layout, n: usize) -> *mut u8 { MAX_REQ.fetch_max(n, Ordering::Relaxed); System.realloc(p, l, n) }
    unsafe fn dealloc(&self, p: *mut u8, l: Layout) { System.dealloc(p, l) }
}
#[global_allocator]
static A: Counting = Counting;

#[test]
fn compressed_split_claims_huge_size() {
    let server = UdpSocket::bind("127.0.0.1:0").unwrap();
    let addr = server.local_addr().unwrap();
    let h = thread::spawn(move || {
        let mut buf = [0u8; 2048];
        let (_n, peer) = server.recv_from(&mut buf).unwrap();
        // FE FF FF FF | id with bit 31 set (compressed) | total 1 | number 0 | size 1248 | decompressed size 0x7FFFFFFF | crc | payload
        let reply = [0xFE, 0xFF, 0xFF, 0xFF, 1, 0, 0, 0x80, 1, 0, 0xE0, 0x04, 0xFF, 0xFF, 0xFF, 0x7F, 0, 0, 0, 0, b'B', b'Z', b'h'];
        server.send_to(&reply, peer).unwrap();
    });
    let ts = TimeoutSettings::new(Some(Duration::from_millis(500)), Some(Duration::from_millis(500)), None, 0).unwrap();
    let r = valve::query(&addr, Engine::new(440), None, Some(ts));
    h.join().unwrap();
    assert!(r.is_err());
    let m = MAX_REQ.load(Ordering::Relaxed);
    assert!(m <= 16 * 1024 * 1024, "largest single allocation request: {m} bytes for a 23-byte reply");
}
