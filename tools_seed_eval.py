#!/usr/bin/env python3
"""Apply a seeded change to /repo, run the given property checks, undo the change.  usage: tools_seed_eval.py <patch> <prop> [<prop>..] [--kani]"""
import subprocess, sys, os
patch = sys.argv[1]
props = [a for a in sys.argv[2:] if not a.startswith('--')]
kani = '--kani' in sys.argv
st = subprocess.run(['git', '-C', '/repo', 'status', '--porcelain'], capture_output=True, text=True).stdout.strip()
if st:
    print('refusing: /repo is dirty:\n' + st); sys.exit(2)
r = subprocess.run(['git', '-C', '/repo', 'apply', '--3way', patch], capture_output=True, text=True)
if r.returncode != 0:
    r = subprocess.run(['git', '-C', '/repo', 'apply', patch], capture_output=True, text=True)
    if r.returncode != 0:
        print('patch does not apply:', r.stderr); sys.exit(2)
try:
    for p in props:
        cmd = ['./check', p] + ([] if kani else ['--no-kani'])
        q = subprocess.run(cmd, capture_output=True, text=True, cwd=os.path.dirname(os.path.abspath(__file__)))
        last = [l for l in q.stdout.strip().split('\n') if l][-6:]
        print(f'== {p}: exit={q.returncode}')
        for l in last:
            print('   ', l[:300])
finally:
    subprocess.run(['git', '-C', '/repo', 'reset', '-q', 'HEAD', '--', '.'])
    subprocess.run(['git', '-C', '/repo', 'checkout', '--', '.'])
    subprocess.run(['git', '-C', '/repo', 'clean', '-fdq', 'crates'])
