#!/usr/bin/env python3
"""Run property checks against a seeded change.  The change is applied in a throw-away worktree of /repo's HEAD (so /repo itself
stays clean and several evaluations can run side by side); the checks are pointed at it through VERIF_REPO.
usage: tools_seed_eval.py <patch> <prop> [<prop>..] [--kani]"""
import subprocess, sys, os, shutil
patch = os.path.abspath(sys.argv[1])
props = [a for a in sys.argv[2:] if not a.startswith('--')]
kani = '--kani' in sys.argv
wt = f'/var/tmp/seedwt-{os.getpid()}'
subprocess.run(['git', '-C', '/repo', 'worktree', 'add', '-q', '--detach', wt, 'HEAD'], check=True)
try:
    r = subprocess.run(['git', '-C', wt, 'apply', '--3way', patch], capture_output=True, text=True)
    if r.returncode != 0:
        r = subprocess.run(['git', '-C', wt, 'apply', patch], capture_output=True, text=True)
        if r.returncode != 0:
            print('patch does not apply:', r.stderr); sys.exit(2)
    env = dict(os.environ, VERIF_REPO=wt, VERIF_BUILD_DIR=f'/var/tmp/seedbuild-{os.getpid()}', VERIF_NO_EVIDENCE='1')
    for p in props:
        cmd = ['python3', 'lib/driver.py', p] + ([] if kani else ['--no-kani'])
        q = subprocess.run(cmd, capture_output=True, text=True, cwd=os.path.dirname(os.path.abspath(__file__)), env=env)
        last = [l for l in q.stdout.strip().split('\n') if l][-6:]
        print(f'== {p}: exit={q.returncode}')
        for l in last:
            print('   ', l[:300])
        import glob, json
        for f in sorted(glob.glob(f'/var/tmp/seedbuild-{os.getpid()}/replays/{p}-*.json')):
            r = json.load(open(f))
            print('      obligation:', (r.get('obligation') or '')[:200], '| reproduced input:', 'yes' if r.get('input') and 'not re-executed' not in str(r.get('observed')) else 'no')
        shutil.rmtree(f'/var/tmp/seedbuild-{os.getpid()}/replays', ignore_errors=True)
finally:
    subprocess.run(['git', '-C', '/repo', 'worktree', 'remove', '--force', wt], capture_output=True)
    shutil.rmtree(wt, ignore_errors=True)
    shutil.rmtree(f'/var/tmp/seedbuild-{os.getpid()}', ignore_errors=True)
