#!/usr/bin/env python3
"""Regenerate contracts/ASSUMPTIONS.lock from the assumptions present in the generated units.
Run by hand after reviewing a new assumption; never run by a check."""
import os, sys, glob
sys.path.insert(0, os.path.join(os.path.dirname(os.path.abspath(__file__)), 'lib'))
import extract, driver
allf = set()
for tpl in sorted(glob.glob(os.path.join(os.path.dirname(os.path.abspath(__file__)), 'units', '*.rs.tpl'))):
    unit = os.path.basename(tpl)[:-7]
    gen, meta = extract.process(unit)
    allf.update(driver.scan_assumptions(gen))
with open(os.path.join(os.path.dirname(os.path.abspath(__file__)), 'contracts', 'ASSUMPTIONS.lock'), 'w') as f:
    f.write('# every unchecked assumption that may appear in a generated unit (reviewed by hand)\n')
    for a in sorted(allf):
        f.write(a + '\n')
print(len(allf), 'assumptions listed')
