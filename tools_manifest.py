#!/usr/bin/env python3
"""Write MANIFEST.json from lib/checks.py + manifest_text.py (kept in sync by hand-run, not by checks)."""
import json, os, sys
V = os.path.dirname(os.path.abspath(__file__))
sys.path.insert(0, os.path.join(V, 'lib'))
import checks as CH
import manifest_text as MT
props = [json.loads(l)['id'] for l in open(os.path.join(V, 'properties.jsonl'))]
checks = []
for p in props:
    if p in CH.PROPS:
        t = MT.TEXT[p]
        checks.append({
            'property_id': p,
            'quick_cmd': f'./check {p} --tier quick',
            'thorough_cmd': f'./check {p} --tier thorough',
            'evidence_file': f'/verif/evidence/{p}.json',
            'replay_cmd_template': f'./check {p} --replay {{path}}',
            'engine': ('verus+kani' if CH.PROPS[p].get('units') and CH.PROPS[p].get('kani') else 'kani' if CH.PROPS[p].get('kani') else 'verus'),
            'level_claimed': {'category': t.get('category', 'proof'), 'text': t['level_text'], 'design_ref': t.get('design_ref', 'DESIGN.md section 3 ' + p)},
            'level_note': t['level_note'],
            'technique': t['technique'],
        })
na = [{'property_id': p, 'reason': MT.NOT_APPLICABLE.get(p, 'no check built yet for this property in this commit (see DESIGN.md section 3)')} for p in props if p not in CH.PROPS]
m = {
    'version': 1,
    'setup_cmd': 'true',
    'hooks': {'guard': 'cfg(kani)', 'enable': 'no hook is committed to /repo: Kani harness modules and contract attributes are injected add-only into a scratch copy of the working tree on every run (cfg(kani) exists only under cargo kani); Verus units are extracted from the working tree on every run',
              'baseline_off_cmd': 'cd /repo && cargo test --workspace --no-fail-fast --offline', 'source_commits': [], 'add_only': True},
    'engines': [
        {'name': 'verus', 'path': '/verif/lib/verus_run.py', 'serves_properties': [p for p in props if p in CH.PROPS and CH.PROPS[p].get('units')], 'kind_free_text': 'Verus 0.2026.09.13 (Z3): contracts on functions extracted mechanically from /repo on every run'},
        {'name': 'kani', 'path': '/verif/lib/kani_run.py', 'serves_properties': [p for p in props if p in CH.PROPS and CH.PROPS[p].get('kani')], 'kind_free_text': 'Kani 0.68 / CBMC 6.11 on the real crate (scratch copy of the working tree, add-only harness injection)'},
    ],
    'checks': checks,
    'not_applicable': na,
    'notes': MT.NOTES,
}
json.dump(m, open(os.path.join(V, 'MANIFEST.json'), 'w'), indent=1)
print('checks:', [c['property_id'] for c in checks], 'n/a:', [n['property_id'] for n in na])
